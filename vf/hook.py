"""DISCOPY_VERIF hook: re-scan every diagram built on the trusted fast path
(caller-supplied `layers`) against the independent well-typedness oracle."""
from vf import engine
from vf.engine import AND
from vf.symty import symlen

_state = dict(on=False, count=0)


def _rescan(dom, cod, boxes, offsets, layers):
    env = engine.P()
    if env is None or not _state['on']:
        return
    _state['count'] += 1
    offsets = list(offsets)
    boxes = list(boxes)
    lay = list(layers.boxes)
    if not (len(boxes) == len(offsets) == len(lay)):
        env.check(False, "hook:lengths-disagree")
        return
    from vf.oracles import teq
    conds = [teq(layers.dom, dom), teq(layers.cod, cod)]
    scan = dom
    for box, off, (l, b, r) in zip(boxes, offsets, lay):
        n = symlen(box.dom)
        conds += [off >= 0, off + n <= symlen(scan),
                  teq(scan[off:off + n], box.dom),
                  teq(l, scan[:off]), teq(r, scan[off + n:])]
        scan = scan[:off] @ box.cod @ scan[off + n:]
    conds.append(teq(scan, cod))
    env.check(AND(*conds), "hook:illtyped-intermediate")


def enable(on=True):
    from discopy import monoidal
    monoidal._verif_rescan = _rescan if on else None
    _state['on'] = on
