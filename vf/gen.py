"""Input generators shared by the harnesses (symbolic and concrete mode)."""
from vf.engine import Abort, SymInt
from vf import symty
from vf.symty import symlen, fresh_ty


# ---------------------------------------------------------------- Mode B

def modeb_box(E, name, maxlen, Box=None):
    from discopy import monoidal
    Box = Box or monoidal.Box
    return Box(name, fresh_ty(E, name + 'd', maxlen),
               fresh_ty(E, name + 'c', maxlen))


def modeb_inputs(E, k, maxlen, prefix=''):
    """arbitrary (dom, cod, boxes, offsets): nothing is assumed about them"""
    dom = fresh_ty(E, prefix + 'dom', maxlen)
    cod = fresh_ty(E, prefix + 'cod', maxlen)
    boxes = [modeb_box(E, '%sb%d' % (prefix, i), maxlen) for i in range(k)]
    offs = [E.int('%so%d' % (prefix, i)) for i in range(k)]
    return dom, cod, boxes, offs


def inputs_welltyped(dom, cod, boxes, offs):
    """oracle on raw constructor inputs (bool / SymBool, never forks)"""
    from vf.engine import AND
    conds, scan = [], dom
    for box, off in zip(boxes, offs):
        n = symlen(box.dom)
        conds += [off >= 0, off + n <= symlen(scan),
                  scan[off:off + n] == box.dom]
        scan = scan[:off] @ box.cod @ scan[off + n:]
    conds.append(scan == cod)
    return AND(*conds)


def modeb_diagram(E, k, maxlen, prefix='', cls=None):
    """a well-typed diagram with k boxes, all of it symbolic (Mode B):
    built by the real scanning constructor, ill-typed inputs are dropped."""
    from discopy import monoidal, cat
    cls = cls or monoidal.Diagram
    dom, cod, boxes, offs = modeb_inputs(E, k, maxlen, prefix)
    E.assume(inputs_welltyped(dom, cod, boxes, offs))
    try:
        return cls(dom, cod, boxes, offs)
    except cat.AxiomError:
        # the oracle says well-typed but the constructor refuses
        E.fail("C01:ctor:refused-welltyped")


# ---------------------------------------------------------------- Mode A

def label(E, name, L):
    """L an int: symbolic label in [0, L); L a list: enumerated objects"""
    if isinstance(L, int):
        return E.int(name, 0, L - 1)
    return E.choice(name, L)


def modea_ty(E, name, w, L, Ty=None, minw=0):
    """a real Ty with solver-chosen width <= w and symbolic labels"""
    from discopy import monoidal
    Ty = Ty or monoidal.Ty
    n = E.choice(name + '_w', range(minw, w + 1))
    return Ty(*[label(E, '%s_%d' % (name, i), L) for i in range(n)])


def modea_diagram(E, name, k, w, a, L, kit=None, names=None):
    """well-typed diagram with exactly k boxes built through the public API.
    widths <= w, arities <= a, labels symbolic in [0, L)."""
    from discopy import monoidal
    kit = kit or monoidal
    dom = modea_ty(E, name + 'dom', w, L, kit.Ty)
    d = kit.Id(dom)
    for i in range(k):
        scan = d.cod
        da = E.choice('%sda%d' % (name, i), range(0, min(a, len(scan)) + 1))
        off = E.choice('%soff%d' % (name, i), range(0, len(scan) - da + 1))
        ca = E.choice('%sca%d' % (name, i), range(0, a + 1))
        if len(scan) - da + ca > w:
            raise Abort()
        bcod = kit.Ty(*[label(E, '%sc%d_%d' % (name, i, j), L)
                        for j in range(ca)])
        bname = (names[i] if names else '%sf%d' % (name, i))
        box = kit.Box(bname, scan[off:off + da], bcod)
        d = d >> kit.Id(scan[:off]) @ box @ kit.Id(scan[off + da:])
    return d
