"""Reference interpretation of ZX generators (independent of discopy.zx):
spiders with phases in full turns, Hadamard, swap, scalar."""
import itertools

import numpy as np


def spider_array(kind, m, n, phase):
    """kind 'Z' or 'X'; entries as sympy expressions / numbers.
    Z: |0..0><0..0| + e^{2 pi i phase} |1..1><1..1|; X the same in the
    Hadamard basis: entry(b) = 2^{-(m+n)/2} (1 + (-1)^{|b|} e^{2 pi i phase})
    """
    import sympy
    ph = sympy.exp(2 * sympy.pi * sympy.I * sympy.sympify(phase)) \
        if not isinstance(phase, (int, float)) or phase != 0 else 1
    shape = (2,) * (m + n)
    out = np.empty(shape or (1,), dtype=object)
    if m + n == 0:
        out[0] = 1 + ph
        return out.reshape(())
    for b in itertools.product((0, 1), repeat=m + n):
        if kind == 'Z':
            out[b] = 1 if sum(b) == 0 else (ph if sum(b) == m + n else 0)
        else:
            norm = sympy.Rational(1, 2) ** ((m + n) // 2) * (
                1 / sympy.sqrt(2) if (m + n) % 2 else 1)
            out[b] = norm * (1 + (-1) ** sum(b) * ph)
    return out


def had_array():
    import sympy
    h = 1 / sympy.sqrt(2)
    return np.array([[h, h], [h, -h]], dtype=object)


def zx_ar(box):
    from discopy.quantum import zx
    if isinstance(box, zx.Z):
        return spider_array('Z', len(box.dom), len(box.cod), box.phase)
    if isinstance(box, zx.X):
        return spider_array('X', len(box.dom), len(box.cod), box.phase)
    if isinstance(box, zx.Had):
        return had_array()
    if isinstance(box, zx.Scalar):
        return np.array(box.data, dtype=object).reshape(())
    raise NotImplementedError("no reference for %r" % (box,))


def interpret(diagram):
    """the real tensor.Functor with the reference generator tensors"""
    from discopy import tensor
    from discopy.rigid import PRO
    F = tensor.Functor(ob={PRO(1): 2}, ar=zx_ar)
    return F(diagram)
