"""Mode B: bounded symbolic model of monoidal.Ty (DESIGN.md section 3.1).

SymTy(monoidal.Ty) = a z3 length n in [0, N] and N z3 integer cells.  The
real Diagram / Layer / cat.Arrow / Box / rewriting code runs unmodified on it.
Environment stubs (installed in the worker process only, never in /repo and
never during concrete replay): `len` and `isinstance` are shadowed in the
module globals of discopy.{cat,monoidal,rewriting} so that len(SymTy) is a
SymInt and isinstance(SymInt, int) holds.
"""
import builtins

import z3

from vf.engine import P, SymInt, SymBool, Abort, lift

N = 6   # number of cells; harnesses bound actual widths by assume()


def setN(n):
    global N
    N = n


def zi(x):
    return x.e if isinstance(x, SymInt) else z3.IntVal(int(x))


def _monoidal():
    from discopy import monoidal
    return monoidal


_cls = {}


def SymTyClass():
    if 'c' in _cls:
        return _cls['c']
    monoidal = _monoidal()

    class SymTy(monoidal.Ty):
        def __init__(self, n, el):
            self.n, self.el = n, el
            self._name = self

        def at(self, i):
            r = self.el[N - 1]
            for k in range(N - 2, -1, -1):
                r = z3.If(i == k, self.el[k], r)
            return r

        def tensor(self, *others):
            r = self
            for o in others:
                if not isinstance(o, monoidal.Ty):
                    from discopy import messages
                    raise TypeError(messages.type_err(monoidal.Ty, o))
                if not isinstance(o, SymTy):
                    o = lift_ty(o)
                # width bound: wider types are outside the claim
                P().assume(SymBool(r.n + o.n <= N))
                rr = r
                r = define(rr.n + o.n, [
                    z3.If(k < rr.n, rr.el[k], o.at(k - rr.n))
                    for k in range(N)])
            return r

        def __getitem__(self, key):
            if isinstance(key, slice):
                if key.step is not None:
                    raise NotImplementedError("SymTy step slice")
                n = self.n

                def norm(v, default):
                    if v is None:
                        return default
                    v = zi(v)
                    v = z3.If(v < 0, z3.If(v + n < 0, 0, v + n), v)
                    return z3.If(v > n, n, v)
                a, b = norm(key.start, z3.IntVal(0)), norm(key.stop, n)
                ln = z3.If(b - a < 0, 0, b - a)
                return define(ln, [self.at(a + k) for k in range(N)])
            raise NotImplementedError("SymTy integer index")

        def __eq__(self, o):
            if not isinstance(o, monoidal.Ty):
                return False
            if not isinstance(o, SymTy):
                o = lift_ty(o)
            return SymBool(z3.And(self.n == o.n, *[
                z3.Or(k >= self.n, self.el[k] == o.el[k])
                for k in range(N)]))

        def __ne__(self, o):
            r = self.__eq__(o)
            return ~r if isinstance(r, SymBool) else not r

        def __hash__(self):
            return 0

        def __len__(self):
            return P().concretize(self.n)

        def __bool__(self):
            return P().decide(self.n != 0)

        def __repr__(self):
            return "SymTy"
        __str__ = __repr__

        def __iter__(self):
            raise NotImplementedError("iteration over SymTy")

        @property
        def objects(self):
            raise NotImplementedError("objects of SymTy")

        @staticmethod
        def upgrade(old):
            return old

    _cls['c'] = SymTy
    return SymTy


def define(n, el):
    """definitional encoding: fresh vars equal to the given terms"""
    p = P()
    nn = p.aux('n')
    p.solver.add(nn == n, nn >= 0)
    ee = []
    for e in el:
        v = p.aux('e')
        p.solver.add(v == e)
        ee.append(v)
    p.model = None
    return SymTyClass()(nn, ee)


def lift_ty(t):
    objs = t.objects
    if len(objs) > N:
        raise Abort()
    cells = []
    for o in objs:
        nm = o.name
        cells.append(lift(nm) if lift(nm) is not None
                     else z3.IntVal(1000 + hash(nm) % 100000))
    cells += [z3.IntVal(0)] * (N - len(cells))
    return SymTyClass()(z3.IntVal(len(objs)), cells)


def fresh_ty(E, name, maxlen=None):
    """symbolic: SymTy with unconstrained cells; concrete: a real Ty"""
    maxlen = N if maxlen is None else maxlen
    if E.symbolic:
        n = E.int(name + '_n', 0, maxlen)
        cells = [E.int('%s_%d' % (name, i)).e for i in range(N)]
        return SymTyClass()(n.e, cells)
    n = E.int(name + '_n', 0, maxlen)
    return _monoidal().Ty(*[E.int('%s_%d' % (name, i)) for i in range(n)])


def symlen(x):
    if 'c' in _cls and isinstance(x, _cls['c']):
        return SymInt(x.n)
    return builtins.len(x)


def symisinstance(o, t):
    if isinstance(o, SymInt) and (t is int or (
            isinstance(t, tuple) and int in t)):
        return True
    return builtins.isinstance(o, t)


_MODS = ('discopy.cat', 'discopy.monoidal', 'discopy.rewriting')


def install():
    import importlib
    for m in _MODS:
        mod = importlib.import_module(m)
        mod.len = symlen
        mod.isinstance = symisinstance


def uninstall():
    import importlib
    for m in _MODS:
        mod = importlib.import_module(m)
        for a in ('len', 'isinstance'):
            if a in mod.__dict__:
                del mod.__dict__[a]
