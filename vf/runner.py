"""Check driver: runs the harnesses of one property on all cores, replays
candidate counterexamples concretely, matches known findings, writes evidence.

Exit codes: 0 held / 1 reproduced violation not listed as known /
2 inconclusive (unknown, budget not exhausted, vacuity witness missing) /
3 harness error (a solver model did not reproduce on the real code).
"""
import argparse
import hashlib
import importlib
import inspect
import json
import multiprocessing as mp
import os
import sys
import time
import traceback

VERIF = os.path.dirname(os.path.dirname(os.path.abspath(__file__)))


class H:
    """A harness: fn(E, **params) run under the DSE engine."""

    def __init__(self, name, fn, params=None, functions=(), covers=(),
                 bounds="", outside="", stubs=(), timeout_s=600,
                 solver_timeout_ms=60000, modeb=False, engine="DSE",
                 keyfn=None):
        self.name, self.fn, self.params = name, fn, params or {}
        self.functions = list(functions)
        self.covers = list(covers)          # outcome classes that must occur
        self.bounds, self.outside = bounds, outside
        self.stubs = list(stubs)
        self.timeout_s = timeout_s
        self.solver_timeout_ms = solver_timeout_ms
        self.modeb = modeb
        self.engine = engine


def load_harnesses(pid, tier):
    mod = importlib.import_module("vf.props." + pid.lower())
    hs = mod.harnesses(tier)
    return mod, {h.name: h for h in hs}


# ------------------------------------------------------------ worker side

_W = {}


def _worker(job):
    pid, tier, hname, prefixes, slice_s, seed, deadline_abs = job
    slice_s = max(0.0, min(slice_s, deadline_abs - time.time()))
    if slice_s <= 0:
        return dict(h=hname, paths=0, aborted=0, queries=0, solver_s=0.0,
                    checks=0, checks_unsat=0, inconclusive=0, covers=[],
                    counters={}, samples=[], cex=[], rest=prefixes,
                    error=None)
    os.environ["DISCOPY_VERIF"] = "1"
    from vf import engine
    try:
        if (pid, tier) not in _W:
            _W[(pid, tier)] = load_harnesses(pid, tier)
        mod, hs = _W[(pid, tier)]
        h = hs[hname]
        if h.modeb:
            from vf import symty
            symty.install()
        try:
            stats, cex, rest = engine.explore(
                h.fn, h.params, prefixes, slice_s,
                solver_timeout_ms=h.solver_timeout_ms, seed=seed)
        finally:
            if h.modeb:
                symty.uninstall()
        return dict(h=hname, paths=stats.paths, aborted=stats.aborted,
                    queries=stats.queries, solver_s=stats.solver_s,
                    checks=stats.checks, checks_unsat=stats.checks_unsat,
                    inconclusive=stats.inconclusive,
                    covers=sorted(stats.covers), samples=stats.samples,
                    counters=dict(stats.counters),
                    cex=cex, rest=rest, error=None)
    except BaseException:
        return dict(h=hname, paths=0, aborted=0, queries=0, solver_s=0.0,
                    checks=0, checks_unsat=0, inconclusive=0, covers=[],
                    counters={}, samples=[], cex=[], rest=[],
                    error=traceback.format_exc())


# ------------------------------------------------------------ main side

def source_hash(qualname):
    """sha256 of the current source of a dotted name under discopy."""
    parts = qualname.split('.')
    for k in range(len(parts), 0, -1):
        try:
            obj = importlib.import_module('.'.join(parts[:k]))
        except ImportError:
            continue
        try:
            for p in parts[k:]:
                obj = getattr(obj, p)
            obj = getattr(obj, '__func__', obj)
            if isinstance(obj, property):
                obj = obj.fget
            src = inspect.getsource(obj)
            return hashlib.sha256(src.encode()).hexdigest()[:16]
        except Exception:
            return "unavailable"
    return "unavailable"


def load_known():
    path = os.path.join(VERIF, "known_findings.json")
    if not os.path.exists(path):
        return []
    with open(path) as f:
        return json.load(f)["findings"]


def match_known(known, pid, key):
    import fnmatch
    for k in known:
        if k["property"] == pid and k.get("status") == "known" \
                and fnmatch.fnmatchcase(key, k["key"]):
            return k
    return None


def run_property(pid, tier, seed, jobs, only=None, verbose=True):
    t0 = time.time()
    os.environ["DISCOPY_VERIF"] = "1"
    os.environ["VERIF_TIER"] = tier
    mod, hs = load_harnesses(pid, tier)
    if only:
        hs = {k: v for k, v in hs.items() if k in only}
    agg = {name: dict(paths=0, aborted=0, queries=0, solver_s=0.0, checks=0,
                      checks_unsat=0, inconclusive=0, covers=set(),
                      samples=[], cex=[], exhausted=False, errors=[],
                      counters={}, wall_s=0.0, started=time.time())
           for name in hs}
    ctx = mp.get_context("fork")
    pool = ctx.Pool(jobs, maxtasksperchild=50)
    pending = {}
    slice_s = 6 if tier == "quick" else 15
    outstanding = {name: 0 for name in hs}
    deadline = {name: time.time() + h.timeout_s for name, h in hs.items()}
    backlog = {name: [] for name in hs}
    results = []

    def submit(name, prefixes):
        outstanding[name] += 1
        r = pool.apply_async(
            _worker, ((pid, tier, name, prefixes, slice_s, seed,
                       deadline[name]),),
            callback=results.append, error_callback=lambda e: results.append(
                dict(h=name, error=repr(e), rest=[], cex=[], paths=0,
                     aborted=0, queries=0, solver_s=0.0, checks=0,
                     checks_unsat=0, inconclusive=0, covers=[], samples=[])))
        return r

    inflight = 0
    for name in hs:
        submit(name, [[]])
        inflight += 1
    timed_out = set()
    while inflight:
        while not results:
            time.sleep(0.02)
        r = results.pop()
        inflight -= 1
        name = r["h"]
        a = agg[name]
        outstanding[name] -= 1
        for k in ("paths", "aborted", "queries", "solver_s", "checks",
                  "checks_unsat", "inconclusive"):
            a[k] += r[k]
        a["covers"] |= set(r["covers"])
        for ck, cv in r.get("counters", {}).items():
            a["counters"][ck] = a["counters"].get(ck, 0) + cv
        for s in r["samples"]:
            if len(a["samples"]) < 4:
                a["samples"].append(s)
        for f in r["cex"]:      # keep a few candidates per failure class
            if sum(1 for c in a["cex"] if c["key"] == f["key"]) < 4:
                a["cex"].append(f)
        if r["error"]:
            a["errors"].append(r["error"])
        rest = r["rest"]
        if len(a["cex"]) >= 40:
            rest = []           # enough counterexamples for this harness
            a["truncated"] = True
        if time.time() > deadline[name]:
            if rest:
                timed_out.add(name)
            rest = []
        # split the remaining stack over idle workers; at most 2 * jobs jobs
        # of one harness are outstanding, the rest waits in the backlog
        backlog[name].extend(rest)
        if time.time() > deadline[name] and backlog[name]:
            timed_out.add(name)
            backlog[name] = []
        while backlog[name] and outstanding[name] < 2 * jobs:
            room = 2 * jobs - outstanding[name]
            # small chunks: the backlog stays here instead of travelling
            # back and forth between the parent and the workers
            per = min(64, max(1, len(backlog[name]) // (2 * room)))
            chunk, backlog[name] = backlog[name][-per:], backlog[name][:-per]
            submit(name, chunk)
            inflight += 1
        if outstanding[name] == 0:
            a["wall_s"] = time.time() - a["started"]
            a["exhausted"] = name not in timed_out \
                and not a.get("truncated") and not a["errors"]
    pool.close()
    pool.join()

    # ---- replay candidates on the real code, concrete mode
    from vf import engine
    known = load_known()
    violations, known_hits, unreproduced = [], [], []
    os.makedirs(os.path.join(VERIF, "replays"), exist_ok=True)
    for name, a in agg.items():
        h = hs[name]
        seen = set()
        for c in a["cex"]:
            sig = (c["key"], json.dumps(c["inputs"], sort_keys=True,
                                        default=str))
            if sig in seen:
                continue
            seen.add(sig)
            fails, env = engine.replay(h.fn, h.params, c["inputs"])
            if not fails:
                unreproduced.append(dict(harness=name, **c))
                continue
            for f in fails:
                rec = dict(property=pid, harness=name, key=f["key"],
                           info=f.get("info"), inputs=c["inputs"],
                           params=_jsonable(h.params), tier=tier,
                           notes=_jsonable(env.notes))
                k = match_known(known, pid, f["key"])
                if k:
                    known_hits.append((k, rec))
                else:
                    violations.append(rec)
    return dict(pid=pid, tier=tier, seed=seed, hs=hs, agg=agg,
                violations=violations, known_hits=known_hits,
                unreproduced=unreproduced, wall_s=time.time() - t0, mod=mod)


def _jsonable(x):
    try:
        json.dumps(x)
        return x
    except TypeError:
        if isinstance(x, dict):
            return {str(k): _jsonable(v) for k, v in x.items()}
        if isinstance(x, (list, tuple, set)):
            return [_jsonable(v) for v in x]
        return repr(x)


def finish(res):
    pid, tier = res["pid"], res["tier"]
    hs, agg = res["hs"], res["agg"]
    out = []
    code = 0
    # violations
    seen_keys = set()
    for v in res["violations"]:
        digest = hashlib.sha256(json.dumps(
            [v["harness"], v["key"], v["inputs"]], sort_keys=True,
            default=str).encode()).hexdigest()[:12]
        path = os.path.join(VERIF, "replays", "%s-%s.json" % (pid, digest))
        with open(path, "w") as f:
            json.dump(v, f, indent=1, default=str)
        if (v["harness"], v["key"]) in seen_keys:
            continue
        seen_keys.add((v["harness"], v["key"]))
        out.append("VIOLATION property=%s replay=%s  # harness=%s key=%s" % (
            pid, path, v["harness"], v["key"]))
        code = 1
    seen_known = set()
    for k, rec in res["known_hits"]:
        if k["key"] in seen_known:
            continue
        seen_known.add(k["key"])
        out.append("KNOWN-FINDING: property=%s %s [%s]" % (
            pid, k["what"], k["key"]))
    harness_error = bool(res["unreproduced"])
    inconclusive = []
    for name, a in agg.items():
        if a["errors"]:
            harness_error = True
            out.append("HARNESS-ERROR %s/%s: %s" % (
                pid, name, a["errors"][0][-800:]))
        if a["inconclusive"]:
            inconclusive.append("%s: %d solver unknowns" % (
                name, a["inconclusive"]))
        if a["counters"].get("cvc5_disagrees"):
            inconclusive.append("%s: cvc5 disagrees with z3 on %d queries" % (
                name, a["counters"]["cvc5_disagrees"]))
        if not a["exhausted"] and not a["cex"]:
            inconclusive.append("%s: path space not exhausted" % name)
        missing = [c for c in hs[name].covers if c not in a["covers"]]
        if missing and not a["cex"]:
            inconclusive.append("%s: outcome classes never reached: %s" % (
                name, missing))
    for u in res["unreproduced"][:5]:
        out.append("UNREPRODUCED %s/%s key=%s inputs=%s" % (
            pid, u["harness"], u["key"], json.dumps(u["inputs"],
                                                    default=str)[:400]))
    if code == 0:
        if harness_error:
            code = 3
        elif inconclusive:
            code = 2
    for i in inconclusive:
        out.append("INCONCLUSIVE %s %s" % (pid, i))

    # evidence
    total_q = sum(a["queries"] for a in agg.values())
    total_p = sum(a["paths"] for a in agg.values())
    fn_hashes = {}
    for h in hs.values():
        for fn in h.functions:
            fn_hashes[fn] = source_hash(fn)
    samples = []
    for name, a in agg.items():
        for s in a["samples"][:2]:
            samples.append(dict(harness=name, bounds=hs[name].bounds, **s))
    ev = dict(
        property_id=pid, tier=tier, seed=res["seed"],
        level=getattr(res["mod"], "LEVEL", "model_checking"),
        coverage=dict(
            evaluations=max(total_q + sum(a["checks"] for a in agg.values()),
                            1),
            distinct_nontrivial=total_p,
            rule="DSE over the real code: every control-flow path within the "
                 "stated bounds is one case (distinct decision prefixes; "
                 "aborted = infeasible under the preconditions are not "
                 "counted); evaluations = SMT queries sent to z3 plus "
                 "assertions discharged (an assertion that z3's simplifier "
                 "reduces to true needs no query), "
                 "distinct_nontrivial = completed feasible paths whose "
                 "assertions were all discharged by the solver",
            samples=samples or [dict(note="no completed path")],
            exhaustive=all(a["exhausted"] for a in agg.values()),
            solver="z3 " + _z3v(),
            solver_seconds=round(sum(a["solver_s"] for a in agg.values()), 2),
            assertions_checked=sum(a["checks"] for a in agg.values()),
            assertions_unsat=sum(a["checks_unsat"] for a in agg.values()),
            functions_encoded=fn_hashes,
            harnesses=[dict(
                name=name, engine=hs[name].engine, bounds=hs[name].bounds,
                outside_claim=hs[name].outside, stubs=hs[name].stubs,
                params=_jsonable(hs[name].params),
                paths_completed=a["paths"], paths_infeasible=a["aborted"],
                queries=a["queries"], solver_s=round(a["solver_s"], 2),
                assertions=a["checks"], assertions_unsat=a["checks_unsat"],
                outcome_classes=sorted(a["covers"]),
                required_classes=hs[name].covers,
                exhausted=a["exhausted"], wall_s=round(a["wall_s"], 1),
                counters=a["counters"],
                candidates=len(a["cex"])) for name, a in agg.items()],
            known_findings_matched=sorted({k["key"]
                                           for k, _ in res["known_hits"]}),
            unreproduced_models=len(res["unreproduced"]),
            inconclusive=inconclusive,
        ),
        assumptions=sorted({s for h in hs.values() for s in h.stubs} | {
            "z3 is sound; results hold only within the bounds listed per "
            "harness; concrete replay uses the unmodified code"}),
        wall_s=round(res["wall_s"], 1),
        violations=len(seen_keys),
        exit_code=code,
    )
    os.makedirs(os.path.join(VERIF, "evidence"), exist_ok=True)
    with open(os.path.join(VERIF, "evidence", pid + ".json"), "w") as f:
        json.dump(ev, f, indent=1, default=str)
    return code, out


def _z3v():
    import z3
    return z3.get_version_string()


def do_replay(pid, path):
    from vf import engine
    with open(path) as f:
        rec = json.load(f)
    os.environ["DISCOPY_VERIF"] = "1"
    mod, hs = load_harnesses(pid, rec.get("tier", "quick"))
    h = hs[rec["harness"]]
    fails, env = engine.replay(h.fn, rec.get("params") or h.params,
                               rec["inputs"])
    if fails:
        for f in fails:
            print("REPRODUCED property=%s key=%s\n%s" % (
                pid, f["key"], f.get("info") or ""))
        print("notes:", json.dumps(_jsonable(env.notes), default=str)[:2000])
        return 1
    print("not reproduced")
    return 0


def main(argv=None):
    ap = argparse.ArgumentParser()
    ap.add_argument("pid")
    ap.add_argument("--tier", default=os.environ.get("VERIF_TIER", "quick"))
    ap.add_argument("--replay")
    ap.add_argument("--only", action="append")
    ap.add_argument("--jobs", type=int,
                    default=int(os.environ.get("VERIF_JOBS", "0")) or
                    (os.cpu_count() or 4))
    args = ap.parse_args(argv)
    pid = args.pid.upper()
    if args.replay:
        return do_replay(pid, args.replay)
    seed = int(os.environ.get("VERIF_SEED", "0") or 0)
    res = run_property(pid, args.tier, seed, args.jobs, only=args.only)
    code, out = finish(res)
    for name, a in res["agg"].items():
        print("[%s/%s] paths=%d infeasible=%d queries=%d solver=%.1fs "
              "checks=%d/%d exhausted=%s wall=%.1fs classes=%s" % (
                  pid, name, a["paths"], a["aborted"], a["queries"],
                  a["solver_s"], a["checks_unsat"], a["checks"],
                  a["exhausted"], a["wall_s"], sorted(a["covers"])))
    for line in out:
        print(line)
    print("RESULT property=%s tier=%s exit=%d wall=%.1fs" % (
        pid, args.tier, code, res["wall_s"]))
    return code


if __name__ == "__main__":
    sys.exit(main())
