"""C03 - equality is structural, hash-consistent and printable."""
from vf.runner import H
from vf.engine import AND, OR, NOT, Abort, SymBool, SymInt, IMPLIES
from vf import gen
from vf.oracles import teq

FUNCS = ["discopy.cat.Ob.__eq__", "discopy.cat.Ob.__hash__", "discopy.cat.Ob.__repr__",
         "discopy.cat.Arrow.__eq__", "discopy.cat.Arrow.__hash__",
         "discopy.cat.Arrow.__repr__", "discopy.cat.Box.__eq__",
         "discopy.cat.Box.__hash__", "discopy.cat.Box.__repr__",
         "discopy.cat.Sum.__eq__", "discopy.cat.Sum.__hash__",
         "discopy.cat.Functor.__call__", "discopy.monoidal.Ty.__eq__",
         "discopy.monoidal.Ty.__hash__", "discopy.monoidal.Ty.__repr__",
         "discopy.monoidal.Diagram.__eq__", "discopy.monoidal.Diagram.__hash__",
         "discopy.monoidal.Diagram.__repr__", "discopy.monoidal.Box.__eq__",
         "discopy.monoidal.Box.__hash__", "discopy.rigid.Ob.__eq__",
         "discopy.rigid.Ob.__hash__", "discopy.rigid.Ob.__repr__",
         "discopy.rigid.Ty.__repr__", "discopy.rigid.Cup.__repr__",
         "discopy.rigid.Cap.__repr__"]


def bool_of(x):
    """force a library == result (bool or SymBool) to a path decision"""
    return bool(x)


def obs(E, cls):
    """Ob / rigid.Ob / Ty / rigid.Ty: x == y <=> same components, for all
    names and winding numbers (symbolic)"""
    from discopy import cat, monoidal, rigid
    if cls == 'cat.Ob':
        a, b = E.int('a', 0, 2), E.int('b', 0, 2)
        x, y = cat.Ob(a), cat.Ob(b)
        comp = (a == b)
    elif cls == 'rigid.Ob':
        a, b = E.int('a', 0, 2), E.int('b', 0, 2)
        za, zb = E.int('za', -3, 3), E.int('zb', -3, 3)
        # z must be a real int for the isinstance check of the constructor
        za, zb = int(za), int(zb)
        x, y = rigid.Ob(a, za), rigid.Ob(b, zb)
        comp = AND(a == b, za == zb)
        E.check(bool_of(x.l.r == x) and bool_of(x.r.l == x)
                and x.l.z == za - 1 and x.r.z == za + 1, "C03:rigid.Ob:adjoints")
    elif cls == 'monoidal.Ty':
        n, m = E.choice('n', [0, 1, 2]), E.choice('m', [0, 1, 2])
        la = [E.int('a%d' % i, 0, 2) for i in range(n)]
        lb = [E.int('b%d' % i, 0, 2) for i in range(m)]
        x, y = monoidal.Ty(*la), monoidal.Ty(*lb)
        comp = AND(*[p == q_ for p, q_ in zip(la, lb)]) if n == m else False
        if n == m and n == 0:
            comp = True
        # however they were built
        if n == 2:
            x2 = monoidal.Ty(la[0]) @ monoidal.Ty(la[1])
            E.check(bool_of(x2 == x) and bool_of(x[:1] @ x[1:] == x)
                    and hash(x2) == hash(x), "C03:Ty:built-differently")
    else:
        n = E.choice('n', [0, 1, 2])
        names = ['a', 'b']
        la = [(E.choice('a%d' % i, names), E.choice('za%d' % i, [0, 1, -2]))
              for i in range(n)]
        lb = [(E.choice('b%d' % i, names), E.choice('zb%d' % i, [0, 1, -2]))
              for i in range(n)]
        x = rigid.Ty(*[rigid.Ob(*p) for p in la])
        y = rigid.Ty(*[rigid.Ob(*p) for p in lb])
        comp = la == lb
        E.check(bool_of(x.l.r == x) and bool_of(x.r.l == x),
                "C03:rigid.Ty:adjoints")
    eq = x == y
    eqb = bool_of(eq)
    E.check(IMPLIES(comp, eqb) if not isinstance(comp, bool)
            else (not comp or eqb), "C03:%s:equal-components-unequal" % cls)
    E.check(IMPLIES(NOT(comp), not eqb) if not isinstance(comp, bool)
            else (comp or not eqb), "C03:%s:unequal-components-equal" % cls)
    E.check(bool_of(x == x) and bool_of(y == x) == eqb and
            bool_of(x != y) == (not eqb), "C03:%s:not-reflexive-symmetric" % cls)
    if eqb:
        E.check(hash(x) == hash(y), "C03:%s:equal-but-different-hash" % cls)
        E.check({x: 1}.get(y) == 1, "C03:%s:not-usable-as-key" % cls)
        E.cover("equal")
    else:
        E.cover("unequal")
    ns = {}
    mod = cat if cls == 'cat.Ob' else rigid if cls.startswith('rigid') \
        else monoidal
    exec("from %s import *" % mod.__name__, ns)
    E.check(bool_of(eval(repr(x), ns) == x), "C03:%s:repr-roundtrip" % cls,
            info=repr(x))


def payload(E, name):
    kind = E.choice(name + '_kind', ['none', 'int', 'zero', 'list', 'empty'])
    return {'none': None, 'int': 7, 'zero': 0, 'list': [1, 2], 'empty': []}[kind]


def boxes(E, cls):
    """boxes (incl. daggered, with data): structural ==, hash, repr, and
    Box == one-box diagram"""
    from discopy import cat, monoidal, rigid
    mod = {'cat': cat, 'monoidal': monoidal, 'rigid': rigid}[cls]
    if cls == 'cat':
        T = lambda nm: cat.Ob(E.choice(nm, ['x', 'y']))
    elif cls == 'monoidal':
        T = lambda nm: monoidal.Ty(*['x', 'y'][:E.choice(nm + 'n', [1, 0, 2])])
    else:
        T = lambda nm: rigid.Ty(*[rigid.Ob('x', z) for z in
                                  E.choice(nm + 'z', [(0,), (), (1, 0)])])
    mk = lambda tag: (E.choice(tag + 'name', ['f', 'g']), T(tag + 'd'),
                      T(tag + 'c'), payload(E, tag + 'p'),
                      E.choice(tag + 'dag', [False, True]))

    def build(spec):
        nm, d, c, data, dag = spec
        b = mod.Box(nm, d, c, data=data) if data is not None \
            else mod.Box(nm, d, c)
        return b.dagger() if dag else b
    sa, sb = mk('a'), mk('b')
    x, y = build(sa), build(sb)
    comp = (sa[0] == sb[0] and sa[3] == sb[3] and sa[4] == sb[4]
            and bool(x.dom == y.dom) and bool(x.cod == y.cod)
            and type(sa[3]) is type(sb[3]))
    eqb = bool(x == y)
    E.check(comp == eqb, "C03:%s.Box:eq-not-structural" % cls,
            info="%r vs %r" % (x, y))
    E.check(bool(y == x) == eqb and bool(x == x), "C03:%s.Box:symmetry" % cls)
    if eqb:
        E.check(hash(x) == hash(y), "C03:%s.Box:equal-but-different-hash" % cls)
    ns = {}
    exec("from %s import *" % mod.__name__, ns)
    E.check(bool(eval(repr(x), ns) == x), "C03:%s.Box:repr-roundtrip" % cls,
            info=repr(x))
    # a box equals the one-box diagram that wraps it
    Id = mod.Id
    wrapped = Id(x.dom) >> x
    E.check(bool(x == wrapped) and bool(wrapped == x)
            and hash(x) == hash(wrapped),
            "C03:%s.Box:not-equal-to-wrapping-diagram" % cls, info=repr(x))
    E.check(bool(eval(repr(wrapped), ns) == wrapped),
            "C03:%s:one-box-diagram-repr" % cls)
    if cls != 'cat':
        # ... but not a one-box diagram with extra wires around the box
        extra = T('extra')
        if len(extra):
            for whiskered in (x @ Id(extra), Id(extra) @ x):
                E.check(not bool(x == whiskered) and not bool(whiskered == x),
                        "C03:%s.Box:equal-to-whiskered-diagram" % cls,
                        info="%r vs %r" % (x, whiskered))
    # functor lookup through an equal key
    if eqb and not sa[4]:
        F = mod.Functor(ob=lambda t: t, ar={x: x})
        try:
            E.check(bool(F(y) == x), "C03:%s.Box:functor-key" % cls)
        except KeyError:
            E.fail("C03:%s.Box:functor-key" % cls)
    E.cover("equal" if eqb else "unequal")


def diagrams(E, cls, k, w, a, L):
    """diagrams: x == y <=> same dom, cod, boxes, offsets, however built"""
    from discopy import monoidal, rigid
    kit = {'monoidal': monoidal, 'rigid': rigid}[cls]
    Ls = L if cls == 'monoidal' else [rigid.Ob('a'), rigid.Ob('a', 1)]
    names = ['f', 'g', 'f'][:k]
    x = gen.modea_diagram(E, 'a', k, w, a, Ls, kit, names=names)
    y = gen.modea_diagram(E, 'b', k, w, a, Ls, kit, names=names)
    comp = AND(teq(x.dom, y.dom), teq(x.cod, y.cod),
               *[AND(bx.name == by.name, teq(bx.dom, by.dom),
                     teq(bx.cod, by.cod), ox == oy)
                 for bx, by, ox, oy in zip(x.boxes, y.boxes, x.offsets,
                                           y.offsets)])
    eqb = bool(x == y)
    E.check(IMPLIES(comp, eqb) if not isinstance(comp, bool)
            else (not comp or eqb), "C03:%s.Diagram:equal-components-unequal"
            % cls)
    E.check(IMPLIES(NOT(comp), not eqb) if not isinstance(comp, bool)
            else (comp or not eqb), "C03:%s.Diagram:unequal-components-equal"
            % cls)
    E.check(bool(y == x) == eqb, "C03:%s.Diagram:symmetry" % cls)
    # rebuilt in a different way
    rebuilt = kit.Id(x.dom)
    for i in range(len(x)):
        rebuilt = rebuilt >> x[i]
    E.check(bool(rebuilt == x) and hash(rebuilt) == hash(x)
            and bool(x[:1] >> x[1:] == x),
            "C03:%s.Diagram:built-differently" % cls)
    if eqb:
        E.check(hash(x) == hash(y), "C03:%s.Diagram:equal-but-different-hash"
                % cls)
        E.cover("equal")
    else:
        E.cover("unequal")
    ns = {}
    exec("from %s import *" % kit.__name__, ns)
    E.check(bool(eval(repr(x), ns) == x), "C03:%s.Diagram:repr-roundtrip"
            % cls, info=repr(x))


def sums(E, cls):
    from discopy import cat, monoidal, rigid
    mod = {'cat': cat, 'monoidal': monoidal, 'rigid': rigid}[cls]
    if cls == 'cat':
        x, y = cat.Ob('x'), cat.Ob('y')
    else:
        x, y = mod.Ty('x'), mod.Ty('y')
    S = cat.Sum if cls == 'cat' else mod.Box.sum
    f, g = mod.Box('f', x, y), mod.Box('g', x, y)
    h = mod.Box('h', y, x)
    pool = [[], [f], [g], [f, g], [g, f], [f, f]]
    ta, tb = E.choice('ta', pool), E.choice('tb', pool)
    da = E.choice('da', [(x, y), (y, x), (x, x)]) if not ta else (x, y)
    db = E.choice('db', [(x, y), (y, x), (x, x)]) if not tb else (x, y)
    sa, sb = S(ta, *da), S(tb, *db)
    comp = ta == tb and da == db
    eqb = bool(sa == sb)
    E.check(comp == eqb, "C03:%s.Sum:eq-not-structural" % cls,
            info="%r vs %r" % (sa, sb))
    E.check(bool(sb == sa) == eqb and bool(sa == sa), "C03:%s.Sum:symmetry" % cls)
    if eqb:
        E.check(hash(sa) == hash(sb), "C03:%s.Sum:equal-but-different-hash"
                % cls)
    ns = {}
    if cls == 'rigid':      # sums of rigid diagrams are monoidal.Sum values
        exec("from discopy.monoidal import *", ns)
    exec("from %s import *" % mod.__name__, ns)
    E.check(bool(eval(repr(sa), ns) == sa), "C03:%s.Sum:repr-roundtrip" % cls,
            info=repr(sa))
    E.cover("equal" if eqb else "unequal")


def transitive(E, L):
    """transitivity on triples of types / one-box diagrams, labels symbolic"""
    from discopy import monoidal
    ts = []
    for nm in 'xyz':
        n = E.choice(nm + 'n', [1, 2])
        ts.append(monoidal.Ty(*[E.int('%s%d' % (nm, i), 0, L - 1)
                                for i in range(n)]))
    x, y, z = ts
    if bool(x == y) and bool(y == z):
        E.check(bool(x == z) and hash(x) == hash(z), "C03:Ty:not-transitive")
        E.cover("chain")
    bx, by, bz = (monoidal.Box('f', t, t) for t in ts)
    if bool(bx == by) and bool(by == bz):
        E.check(bool(bx == bz), "C03:Box:not-transitive")
    E.cover("triple")


def structural_boxes(E):
    """rigid structural boxes print as constructor syntax"""
    from discopy import rigid, monoidal
    x = rigid.Ty(rigid.Ob('x', E.choice('z', [0, 1, -1])))
    y = rigid.Ty('y')
    ns = {}
    exec("from discopy.rigid import *", ns)
    for b in [rigid.Cup(x, x.r), rigid.Cap(x.r, x), rigid.Cup(x.l, x),
              rigid.Swap(x, y), rigid.Cup(x, x.r).dagger(),
              rigid.Id(x @ y), rigid.Id(rigid.Ty())]:
        E.check(bool(eval(repr(b), ns) == b) and hash(eval(repr(b), ns))
                == hash(b), "C03:rigid:structural-repr", info=repr(b))
    ns = {}
    exec("from discopy.monoidal import *", ns)
    s = monoidal.Swap(monoidal.Ty('x'), monoidal.Ty('y'))
    E.check(bool(eval(repr(s), ns) == s), "C03:monoidal:swap-repr")
    E.cover("structural")


def harnesses(tier):
    q = tier == "quick"
    T = 600 if q else 900
    hs = []
    for cls in ('cat.Ob', 'rigid.Ob', 'monoidal.Ty', 'rigid.Ty'):
        hs.append(H("obs_" + cls.replace('.', '_'), obs, dict(cls=cls), FUNCS,
                    covers=["equal", "unequal"], bounds="%s with names "
                    "symbolic in [0,3), winding numbers in [-3,3], types of "
                    "<= 2 objects" % cls, outside="float/bool names "
                    "(Ty(1) == Ty(1.0) with different repr)", timeout_s=T))
    for cls in ('cat', 'monoidal', 'rigid'):
        hs.append(H("boxes_" + cls, boxes, dict(cls=cls), FUNCS,
                    covers=["equal", "unequal"], engine="DSE (choices)",
                    bounds="%s boxes: 2 names x small types x data in {None, "
                    "7, 0, [1, 2], []} x dagger flag, all pairs" % cls,
                    timeout_s=T))
        hs.append(H("sums_" + cls, sums, dict(cls=cls), FUNCS,
                    covers=["equal", "unequal"], engine="DSE (choices)",
                    bounds="%s sums of <= 2 terms incl. empty sums with "
                    "different dom/cod, all pairs" % cls, timeout_s=T))
    for cls in ('monoidal', 'rigid'):
        k, w, a, L = (1, 2, 1, 2) if q else (2, 2, 1, 2)
        hs.append(H("diagrams_" + cls, diagrams,
                    dict(cls=cls, k=k, w=w, a=a, L=L), FUNCS,
                    covers=["equal", "unequal"], bounds="pairs of %s diagrams "
                    "with %d box(es), width <= %d, arity <= %d, %s"
                    % (cls, k, w, a, "2 symbolic labels" if cls == 'monoidal'
                       else "objects a, a.r"), timeout_s=T))
    hs.append(H("transitive", transitive, dict(L=2), FUNCS,
                covers=["triple", "chain"], bounds="triples of types of "
                "length 1-2 with symbolic labels", timeout_s=T))
    hs.append(H("structural_boxes", structural_boxes, {}, FUNCS,
                covers=["structural"], engine="DSE (choices)",
                bounds="Cup, Cap, Swap, Id reprs for z in {-1,0,1}",
                timeout_s=T))
    return hs
