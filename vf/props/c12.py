"""C12 - mixed evaluation agrees with pure evaluation and the Born rule."""
import itertools

import numpy as np

from vf.runner import H
from vf.engine import Abort
from vf import sym
from vf.props.c11 import gate

FUNCS = ["discopy.quantum.cqmap.CQMap.__init__", "discopy.quantum.cqmap.CQMap.then",
         "discopy.quantum.cqmap.CQMap.tensor", "discopy.quantum.cqmap.CQMap.swap",
         "discopy.quantum.cqmap.CQMap.pure", "discopy.quantum.cqmap.CQMap.measure",
         "discopy.quantum.cqmap.CQMap.encode", "discopy.quantum.cqmap.CQMap.discard",
         "discopy.quantum.cqmap.CQMap.classical", "discopy.quantum.cqmap.CQMap.dagger",
         "discopy.quantum.cqmap.Functor._ob", "discopy.quantum.cqmap.Functor._ar",
         "discopy.quantum.circuit.Circuit.is_mixed",
         "discopy.quantum.circuit.Circuit.eval",
         "discopy.quantum.circuit.Circuit.init_and_discard",
         "discopy.quantum.circuit.Circuit.get_counts",
         "discopy.quantum.circuit.Circuit.measure",
         "discopy.quantum.circuit.Measure.__init__",
         "discopy.quantum.circuit.Encode.__init__"]


def obj(shape):
    return np.zeros(shape or (1,), dtype=object)


def doubled(U, n_in, n_out):
    """conj(U) (x) U with axes (in', in, out', out), each a block of qubits"""
    U = np.asarray(U, dtype=object).reshape((2,) * (n_in + n_out) or (1,))
    out = np.empty((2,) * (2 * n_in + 2 * n_out) or (1,), dtype=object)
    rng = lambda k: itertools.product((0, 1), repeat=k)
    for ip in rng(n_in):
        for i in rng(n_in):
            for op in rng(n_out):
                for o in rng(n_out):
                    a = U[ip + op] if n_in + n_out else U[0]
                    b = U[i + o] if n_in + n_out else U[0]
                    a = a.conjugate() if hasattr(a, 'conjugate') else a
                    out[(ip + i + op + o) or (0,)] = a * b
    return out


def doubling(E, n, m):
    """pure circuits: eval(mixed=True) is conj (x) self of eval()"""
    import sympy
    from discopy.quantum import gates as G
    from discopy.quantum.circuit import Id
    sym.begin(E)
    c = Id(n)
    prep = E.choice('prep', ['none', 'ket'])
    n_in = n
    if prep == 'ket':
        c = G.Ket(*[E.choice('k%d' % i, [0, 1]) for i in range(n)])
        n_in = 0
    for layer in range(m):
        kind = E.choice('kind%d' % layer, ['generic1', 'generic2', 'Rx', 'CRz',
                                           'scalar', 'H', 'SWAP', 'sqrt'])
        if kind.startswith('generic'):
            k = int(kind[-1])
            g = G.QuantumGate('G%d' % layer, k,
                              sym.carr(E, 'G%d' % layer, (2,) * (2 * k)))
        elif kind in ('Rx', 'CRz'):
            g = gate(kind, sym.sym(E, 'p%d' % layer))
        elif kind == 'scalar':
            u, v = sym.sym(E, 'u%d' % layer), sym.sym(E, 'v%d' % layer)
            g = G.scalar(u + sympy.I * v)
        elif kind == 'sqrt':
            g = G.sqrt(2)
        else:
            g = getattr(G, kind)
        k = len(g.dom)
        if k > n:
            raise Abort()
        off = E.choice('off%d' % layer, range(n - k + 1))
        c = c >> Id(off) @ g @ Id(n - off - k)
    E.check(not c.is_mixed, "C12:doubling:pure-circuit-reported-mixed")
    U = c.eval().array
    M = c.eval(mixed=True)
    ref = doubled(U, n_in, n)
    sym.prove_equal(E, M.array, ref, "C12:doubling:not-conj-tensor-self")
    E.cover("doubling")


def boxes(E):
    """Measure / Encode / Discard / MixedState variants and scalars"""
    import sympy
    from discopy.quantum import gates as G, circuit as C
    from discopy.quantum.circuit import (Id, qubit, bit, Measure, Encode,
                                         Discard, MixedState)
    from discopy.quantum.cqmap import CQ, C as Cty, Q as Qty
    from discopy.tensor import Dim
    sym.begin(E)
    kind = E.choice('kind', ['measure', 'discard', 'adjoints', 'scalars',
                             'types'])
    rng = lambda k: itertools.product((0, 1), repeat=k)
    if kind == 'measure':
        nq = E.choice('nq', [1, 2])
        destructive = E.choice('destructive', [True, False])
        override = E.choice('override', [False, True])
        # generic (unnormalised) pure state on nq qubits
        psi = sym.carr(E, 'psi', (2,) * nq)
        st = G.QuantumGate('S', nq, None)
        st._array = None
        state = C.Box('psi', qubit ** 0, qubit ** nq, is_mixed=False)
        state.array = psi
        c = state
        if override:
            bits = [E.choice('b%d' % i, [0, 1]) for i in range(nq)]
            c = c @ G.Bits(*bits)
        c = c >> Measure(nq, destructive=destructive, override_bits=override)
        r = c.eval()
        # Born rule: p(c) = |psi_c|^2, post-measurement state |c><c|
        if destructive:
            ref = obj((2,) * nq)
            for b in rng(nq):
                ref[b] = psi[b].abs2() if hasattr(psi[b], 'abs2') \
                    else abs(psi[b]) ** 2
        else:
            ref = obj((2,) * (3 * nq))
            for b in rng(nq):
                for o1 in rng(nq):
                    for o2 in rng(nq):
                        ref[b + o1 + o2] = (
                            psi[b].abs2() if hasattr(psi[b], 'abs2')
                            else abs(psi[b]) ** 2) if b == o1 == o2 else 0
        sym.prove_equal(E, r.array, ref, "C12:measure:born-rule",
                        info="nq=%d destructive=%s override=%s" % (
                            nq, destructive, override))
        E.check(r.dom == CQ() and r.cod == (
            Cty(Dim(*[2] * nq)) if destructive
            else Cty(Dim(*[2] * nq)) @ Qty(Dim(*[2] * nq))),
            "C12:measure:cod")
    elif kind == 'discard':
        # partial trace of a generic 2-qubit pure state, and a marginal
        psi = sym.carr(E, 'psi', (2, 2))
        state = C.Box('psi', qubit ** 0, qubit ** 2, is_mixed=False)
        state.array = psi
        which = E.choice('which', [0, 1])
        c = state >> (Discard() @ Id(1) if which == 0 else Id(1) @ Discard())
        r = c.eval()
        ref = obj((2, 2))
        for o1 in (0, 1):
            for o2 in (0, 1):
                acc = 0
                for a in (0, 1):
                    x, y = (psi[a, o1], psi[a, o2]) if which == 0 \
                        else (psi[o1, a], psi[o2, a])
                    acc = acc + x.conjugate() * y
                ref[o1, o2] = acc
        sym.prove_equal(E, r.array, ref, "C12:discard:partial-trace")
        # classical marginal
        p = sym.carr(E, 'p', (2, 2), real=True)
        dist = G.ClassicalGate('p', 0, 2, p)
        r2 = (dist >> (Discard(bit) @ Id(bit) if which == 0
                       else Id(bit) @ Discard(bit))).eval()
        refm = obj((2,))
        for o in (0, 1):
            refm[o] = (p[0, o] + p[1, o]) if which == 0 else (p[o, 0] + p[o, 1])
        sym.prove_equal(E, r2.array, refm, "C12:discard:marginal")
    elif kind == 'adjoints':
        nq = E.choice('nq', [1, 2])
        a = E.choice('a', [True, False])
        b = E.choice('b', [False, True])
        m = Measure(nq, destructive=a, override_bits=b)
        e = Encode(nq, constructive=a, reset_bits=b)
        me, ee = m.eval(), e.eval()
        E.check(ee.dom == me.cod and ee.cod == me.dom,
                "C12:encode:not-adjoint-types", info=str((a, b)))
        sym.prove_equal(E, ee.array, me.dagger().array,
                        "C12:encode:not-adjoint-of-measure")
        E.check(m.dagger() == e and e.dagger() == m, "C12:encode:dagger")
        t = E.choice('t', [qubit, bit, qubit @ bit, bit @ qubit, qubit ** 2])
        d, s = Discard(t), MixedState(t)
        E.check(d.dagger() == s and s.dagger() == d,
                "C12:mixedstate:dagger", info=str(t))
        sym.prove_equal(E, s.eval().array, d.eval().dagger().array,
                        "C12:mixedstate:not-adjoint-of-discard")
        # discarding a mixed state gives the dimension
        tot = (s >> d).eval().array
        sym.prove_equal(E, tot, [2 ** len(t)], "C12:mixedstate:trace")
    elif kind == 'scalars':
        u, v = sym.sym(E, 'u'), sym.sym(E, 'v')
        z = u + sympy.I * v
        pure = G.scalar(z).eval(mixed=True).array
        sym.prove_equal(E, pure, [u * u + v * v], "C12:scalar:pure-not-abs2")
        mixed = G.scalar(z, is_mixed=True).eval().array
        sym.prove_equal(E, mixed, [z], "C12:scalar:mixed")
        both = (G.scalar(z) @ G.scalar(u, is_mixed=True)).eval(mixed=True).array
        sym.prove_equal(E, both, [(u * u + v * v) * u], "C12:scalar:product")
    else:
        # CQ types of every box agree with its declared dom/cod
        from discopy.quantum import cqmap
        F = cqmap.Functor()
        pool = [Measure(), Measure(1, False), Measure(1, True, True),
                Measure(2, False, True), Encode(), Encode(1, False),
                Encode(1, True, True), Discard(), Discard(bit @ qubit),
                MixedState(qubit @ bit), G.Copy(), G.Match(), G.Bits(1, 0),
                G.Ket(1), G.Bra(0, 1), G.H, G.CX, C.Swap(bit, qubit),
                G.scalar(0.5), G.Bits(1).dagger()]
        b = E.choice('box', pool)
        r = b.eval(mixed=True)
        E.check(r.dom == F(b.dom) and r.cod == F(b.cod),
                "C12:types:box-vs-cqmap", info=repr(b))
        exp = tuple(F(b.dom).classical) + 2 * tuple(F(b.dom).quantum) \
            + tuple(F(b.cod).classical) + 2 * tuple(F(b.cod).quantum)
        E.check(tuple(np.asarray(r.array).shape) == (exp or (1,)),
                "C12:types:array-shape", info=repr(b))
    E.cover(kind)


def cq_tensor(E):
    """CQMap.tensor's swap network = the reference interleaving"""
    from discopy.quantum.cqmap import CQMap, CQ
    from discopy.tensor import Dim
    sym.begin(E)
    shapes = [((), ()), ((2,), ()), ((), (2,)), ((2,), (2,)), ((3,), (2,))]
    (ac, aq), (bc, bq) = E.choice('adom', shapes), E.choice('bdom', shapes)
    (acc, aqc), (bcc, bqc) = E.choice('acod', shapes[:4]), E.choice(
        'bcod', shapes[:4])

    def size(*ts):
        n = 1
        for t in ts:
            for d in t:
                n *= d
        return n
    if size(ac, aq, aq, acc, aqc, aqc) * size(bc, bq, bq, bcc, bqc, bqc) > 1100:
        raise Abort()
    A = CQMap(CQ(Dim(*ac), Dim(*aq)), CQ(Dim(*acc), Dim(*aqc)),
              sym.carr(E, 'A', ac + aq + aq + acc + aqc + aqc))
    B = CQMap(CQ(Dim(*bc), Dim(*bq)), CQ(Dim(*bcc), Dim(*bqc)),
              sym.carr(E, 'B', bc + bq + bq + bcc + bqc + bqc))
    T = A @ B
    E.check(T.dom == A.dom @ B.dom and T.cod == A.cod @ B.cod,
            "C12:cqtensor:dom-cod")
    shape = ac + bc + aq + bq + aq + bq + acc + bcc + aqc + bqc + aqc + bqc
    ref = obj(shape)
    Aa = np.asarray(A.array, dtype=object).reshape(
        ac + aq + aq + acc + aqc + aqc or (1,))
    Ba = np.asarray(B.array, dtype=object).reshape(
        bc + bq + bq + bcc + bqc + bqc or (1,))
    R = lambda t: list(itertools.product(*[range(d) for d in t]))
    for i1 in R(ac):
        for i2 in R(bc):
            for i3 in R(aq):
                for i4 in R(bq):
                    for i5 in R(aq):
                        for i6 in R(bq):
                            for o1 in R(acc):
                                for o2 in R(bcc):
                                    for o3 in R(aqc):
                                        for o4 in R(bqc):
                                            for o5 in R(aqc):
                                                for o6 in R(bqc):
                                                    ia = i1 + i3 + i5 + o1 + o3 + o5
                                                    ib = i2 + i4 + i6 + o2 + o4 + o6
                                                    it = i1 + i2 + i3 + i4 + i5 + i6 + o1 + o2 + o3 + o4 + o5 + o6
                                                    ref[it or (0,)] = Aa[ia or (0,)] * Ba[ib or (0,)]
    sym.prove_equal(E, T.array, ref, "C12:cqtensor:not-interleaving")
    E.cover("cqtensor")


def trace_preserving(E, m):
    """state preparations, unitaries, measurements, discards and stochastic
    classical gates: the output distribution sums to 1, for all phases"""
    import sympy
    from discopy.quantum import gates as G
    from discopy.quantum.circuit import (Id, qubit, bit, Measure, Discard,
                                         Circuit)
    sym.begin(E)
    c = Id(0)
    nprep = E.choice('nprep', [1, 2])
    for i in range(nprep):
        c = c @ E.choice('prep%d' % i, [G.Ket(0), G.Ket(1), G.Bits(1)])
    for layer in range(m):
        scan = c.cod
        opts = []
        for off in range(len(scan)):
            t = scan[off:off + 1]
            if t == qubit:
                opts += [('Rx', off), ('H', off), ('measure', off),
                         ('measure-nd', off), ('discard', off)]
                if scan[off + 1:off + 2] == qubit:
                    opts += [('CRz', off), ('CX', off)]
                if scan[off + 1:off + 2] == bit:
                    opts += [('measure-ov', off)]
            else:
                opts += [('stoch', off), ('discard-bit', off), ('copy', off)]
        if not opts:
            raise Abort()
        kind, off = E.choice('op%d' % layer, opts)
        if kind in ('Rx', 'CRz'):
            g = gate(kind, sym.sym(E, 'p%d' % layer))
        elif kind in ('H', 'CX'):
            g = getattr(G, kind)
        elif kind == 'measure':
            g = Measure()
        elif kind == 'measure-nd':
            g = Measure(1, destructive=False)
        elif kind == 'measure-ov':
            g = Measure(1, destructive=True, override_bits=True)
        elif kind == 'discard':
            g = Discard()
        elif kind == 'discard-bit':
            g = Discard(bit)
        elif kind == 'copy':
            g = G.Copy()
        else:
            p = sym.carr(E, 's%d' % layer, (2, 2), real=True)
            if E.symbolic:
                sym.assume(E, p[0, 0].re + p[0, 1].re == 1)
                sym.assume(E, p[1, 0].re + p[1, 1].re == 1)
            else:
                # concrete replay: renormalise the recorded rows
                p = np.array([[p[0, 0], 1 - p[0, 0]], [p[1, 0], 1 - p[1, 0]]])
            g = G.ClassicalGate('s%d' % layer, 1, 1, p)
        c = c >> Id(scan[:off]) @ g @ Id(scan[off + len(g.dom):])
    full = c.init_and_discard()
    r = full.eval(mixed=True)
    sym.prove_real_nonneg_sum1(E, r.array, "C12:trace:not-preserved")
    E.cover("trace")


def counts(E):
    """numeric cross-check: get_counts() and measure() equal the
    distribution read off the evaluation (numeric-only API)"""
    from discopy.quantum import gates as G
    from discopy.quantum.circuit import Id, Measure, Discard, bit, qubit
    sym.begin(E)
    pool = [G.H @ G.Ket(0) >> G.CX,
            G.Ket(0, 0) >> G.H @ G.Rx(0.3) >> G.CX,
            G.Ket(0) >> G.Rx(0.2) >> Measure(),
            G.Ket(0, 1) >> G.CRz(0.4) >> G.H @ G.H >> Measure(2),
            G.Ket(1) @ G.Bits(0) >> G.H @ Id(bit) >> Measure() @ Id(bit),
            G.Rx(0.3) @ G.Ket(1) >> G.CX >> Id(1) @ G.Ry(0.7),
            G.Ket(0, 0) >> G.H @ Id(1) >> G.CX >> Discard() @ Measure(),
            G.H >> G.Rz(0.3) >> G.H, Id(0), G.Ket(1) >> G.scalar(1j) @ G.X,
            G.Ket(0) >> G.H >> G.Bra(0),
            G.Ket(0, 0) >> G.H @ Id(1) >> G.CX >> G.Bra(0) @ G.Bra(0),
            G.H >> G.Bra(1),
            G.Ket(0) @ G.Bits(1) >> G.H @ Id(bit) >> G.Bra(0) @ Id(bit),
            G.Bits(0) >> G.ClassicalGate('NOT', 1, 1, [0, 1, 1, 0]) @ G.Ket(0),
            G.Ket(0) @ G.Bits(1, 0) >> G.Rx(0.3) @ Id(bit ** 2)
            >> G.Bra(1) @ Id(bit ** 2),
            G.Ket(0) @ G.Ket(0) @ G.Ket(0) >> G.H @ G.H @ Id(1)
            >> Id(1) @ G.CX]
    c = E.choice('circuit', pool)
    # is_mixed: some box is mixed, or bits and qubits sit side by side at
    # some depth
    mixed_types = any(t.count(bit) and t.count(qubit)
                      for t in [c.dom] + [l.cod for l in c.layers.boxes])
    E.check(c.is_mixed == (mixed_types or any(b.is_mixed for b in c.boxes)),
            "C12:is_mixed:wrong", info=str(c))
    ev = np.asarray(c.init_and_discard().eval(mixed=True).array,
                    dtype=complex)
    if c.is_mixed or mixed_types:
        dflt = np.asarray(c.eval().array, dtype=complex)
        E.check(bool(np.allclose(dflt.flatten(), np.asarray(
            c.eval(mixed=True).array, dtype=complex).flatten())),
            "C12:eval:mixed-circuit-evaluated-as-pure", info=str(c))
    n = len(c.init_and_discard().cod)
    postselected = any(isinstance(b, G.Bra) for b in c.boxes)
    E.check((postselected or abs(ev.sum() - 1) < 1e-9)
            and np.allclose(ev.imag, 0) and (ev.real > -1e-12).all(),
            "C12:counts:not-a-distribution")
    cnt = c.get_counts()
    for bits in itertools.product((0, 1), repeat=n):
        v = ev[bits] if n else ev.flatten()[0]
        got = float(np.asarray(cnt.get(bits, 0)).flatten()[0])
        E.check(abs(got - v.real) < 1e-9,
                "C12:get_counts:differs-from-eval", info=str(bits))
    meas = np.asarray(c.measure(), dtype=float)
    if c.is_mixed:
        E.check(np.allclose(meas.flatten(), ev.real.flatten()),
                "C12:measure:mixed-differs-from-eval")
    else:
        # Born rule from the pure evaluation on |0...0>
        amp = np.asarray((G.Ket(*[0] * len(c.dom)) >> c).eval().array,
                         dtype=complex)
        E.check(np.allclose(meas.flatten(), (abs(amp) ** 2).flatten()),
                "C12:measure:pure-differs-from-born-rule",
                info="%s vs %s" % (meas.flatten(), (abs(amp) ** 2).flatten()))
        E.check(postselected or abs(meas.sum() - 1) < 1e-9,
                "C12:measure:not-a-distribution")
    E.cover("counts")


def harnesses(tier):
    q = tier == "quick"
    T = 600 if q else 900
    n, m = (2, 2)
    more = [] if q else [
        H("doubling_3q", doubling, dict(n=3, m=1), FUNCS, covers=["doubling"],
          engine="SYM (z3 QF_NRA)", bounds="3 qubits, 1 layer (generic 1/2-"
          "qubit matrices at every offset, rotations, scalars)", timeout_s=T)]
    return more + [
        H("doubling", doubling, dict(n=n, m=m), FUNCS, covers=["doubling"],
          engine="SYM (z3 QF_NRA)", bounds="%d qubits, %d layers over generic "
          "1/2-qubit matrices, Rx/CRz with symbolic phases, symbolic complex "
          "scalars, H, SWAP, sqrt(2); with and without Ket preparation"
          % (n, m), outside="more qubits/layers; qudits", timeout_s=T),
        H("boxes", boxes, {}, FUNCS,
          covers=['measure', 'discard', 'adjoints', 'scalars', 'types'],
          engine="SYM (z3 QF_NRA)", bounds="Measure (1-2 qubits, all 4 "
          "variants) on a generic symbolic state; Discard on generic 2-qubit "
          "states / 2-bit distributions; Encode/MixedState adjoints for all "
          "variants; symbolic pure/mixed scalars; CQ types of 20 boxes",
          outside="qudits of dimension > 2", timeout_s=T),
        H("cq_tensor", cq_tensor, {}, FUNCS, covers=["cqtensor"],
          engine="SYM (z3 QF_NRA)", bounds="generic CQ maps with <= 1 "
          "classical and <= 1 quantum wire on each side (dims 2, 3), array "
          "size cap 1100", outside="more wires", timeout_s=T),
        H("trace_preserving", trace_preserving, dict(m=2 if q else 3), FUNCS,
          covers=["trace"], engine="SYM (z3 QF_NRA, circle pairs, stochastic "
          "rows as assumptions)", bounds="1-2 preparations then %d layers "
          "from {Rx, CRz (symbolic phase), H, CX, Measure (3 variants), "
          "Discard, Copy, generic stochastic 1-bit gate}" % (2 if q else 3),
          outside="deeper circuits", timeout_s=T),
        H("counts", counts, {}, FUNCS, covers=["counts"],
          engine="numeric cross-check on 17 concrete circuits (get_counts / "
          "measure use .real and truthiness: cannot carry symbols)",
          bounds="17 fixed circuits", outside="everything symbolic",
          timeout_s=T)]
