"""C15 - diagrammatic gradients evaluate to the gradient of the evaluation."""
import numpy as np

from vf.runner import H
from vf.engine import Abort
from vf import sym, zxref
from vf.props.c14 import flat

FUNCS = ["discopy.tensor.Diagram.grad", "discopy.tensor.Diagram.jacobian",
         "discopy.tensor.Tensor.grad", "discopy.tensor.Tensor.jacobian",
         "discopy.tensor.Box.grad", "discopy.tensor.Bubble.grad",
         "discopy.quantum.gates.Rotation.grad", "discopy.quantum.gates.CU1.grad",
         "discopy.quantum.gates.CRz.grad", "discopy.quantum.gates.CRx.grad",
         "discopy.quantum.gates.Scalar.grad",
         "discopy.quantum.gates.ClassicalGate.grad",
         "discopy.quantum.circuit.Circuit.grad",
         "discopy.quantum.circuit.Circuit.jacobian",
         "discopy.quantum.circuit.Sum.eval", "discopy.quantum.circuit.Sum.grad",
         "discopy.quantum.zx.Spider.grad", "discopy.quantum.zx.Scalar.grad",
         "discopy.quantum.zx.Diagram.grad"]


def diff_entries(arr, var):
    """reference: sympy's derivative of the evaluated entries (independent of
    every grad rule of the library)"""
    import sympy
    return [sympy.diff(sympy.sympify(v), var) for v in arr]


def phase_exprs(E, name, x, y, quadratic):
    import sympy
    R = sympy.Rational
    opts = [x, 2 * x + y, -x / 2 + R(1, 4), y, x + y]
    if quadratic:
        opts += [x * x, x * y]
    return E.choice(name, opts)


def circuit_grad(E, layers, quadratic, kinds=None, nq=2):
    import sympy
    from discopy.quantum import gates as G
    from discopy.quantum.circuit import Id
    sym.begin(E)
    x, y = sym.sym(E, 'x'), sym.sym(E, 'y')
    n = nq
    # |+...+>: every computational basis state has an amplitude, so that
    # diagonal and controlled gates act non-trivially
    c = G.Ket(*[0] * n) >> Id(0).tensor(*[G.H] * n)
    has_ctrl = False
    has_scalar = False
    for l in range(layers):
        kind = E.choice('kind%d' % l, kinds or [
            'Rx', 'Rz', 'Ry', 'CRz', 'CRx', 'CU1', 'scalar', 'H', 'sqrt'])
        ex = phase_exprs(E, 'expr%d' % l, x, y, quadratic)
        if kind in ('Rx', 'Rz', 'Ry', 'CRz', 'CRx', 'CU1'):
            g = getattr(G, kind)(ex)
            has_ctrl = has_ctrl or kind.startswith('C')
        elif kind == 'scalar':
            g = G.scalar(ex + sympy.I * x)
            has_scalar = True
        elif kind == 'sqrt':
            g = G.sqrt(ex * ex + 1)
            has_scalar = True
        else:
            g = G.H
        k = len(g.dom)
        off = E.choice('off%d' % l, range(n - k + 1))
        c = c >> Id(off) @ g @ Id(n - off - k)
    var = E.choice('var', [x, y])
    mode = E.choice('mode', ['pure', 'mixed'])
    if var not in c.free_symbols:
        gsum = c.grad(var, mixed=(mode == 'mixed'))
        E.check(len(gsum.terms) == 0 and gsum.dom == c.dom
                and gsum.cod == c.cod, "C15:circuit:grad-of-constant-not-empty")
        E.cover("constant")
        return
    if mode == 'pure':
        g = c.grad(var, mixed=False)
        got = g.eval(mixed=False)
        ref = diff_entries(flat(c.eval()), var)
        sym.prove_equal(E, flat(got) if hasattr(got, 'array') else [got], ref,
                        "C15:circuit:pure-gradient")
        E.cover("pure")
    else:
        try:
            g = c.grad(var)
        except NotImplementedError:
            E.cover("refused")
            E.check(has_ctrl, "C15:circuit:parameter-shift-refused")
            return
        got = g.eval(mixed=True)
        ref = diff_entries(flat(c.eval(mixed=True)), var)
        key = "C15:circuit:parameter-shift-gradient"
        if has_scalar:
            key = "C15:circuit:parameter-shift-gradient:with-scalar"
        sym.prove_equal(E, flat(got) if hasattr(got, 'array') else [got], ref,
                        key)
        E.cover("mixed")


def jacobians(E):
    import sympy
    from discopy.quantum import gates as G
    from discopy.quantum.circuit import Id
    sym.begin(E)
    x, y, z = sym.sym(E, 'x'), sym.sym(E, 'y'), sym.sym(E, 'z')
    c = E.choice('circuit', [
        G.Ket(0) >> G.Rx(x) >> G.Rz(2 * z + x),
        G.Ket(0, 0) >> G.Rx(x) @ G.Rz(z) >> G.CX,
        G.Ket(0) >> G.Rx(x + z) >> G.scalar(x) @ Id(1)])
    vs = E.choice('vars', [[x, y, z], [z, x], [y], [x, z, y], [], [x], [z]])
    mode = E.choice('mode', ['pure', 'mixed'])
    mixed = mode == 'mixed'
    J = c.jacobian(vs, mixed=mixed)
    if not vs:
        E.check(len(J.terms) == 0, "C15:jacobian:empty-variables")
        E.cover("empty")
        return
    if len(vs) == 2 and not mixed:
        # Digits(i, dim=2) is the type `bit`: a 2-variable pure jacobian is
        # evaluated as a classical-quantum map; compare in that form
        pass
    got = J.eval(mixed=mixed)
    base = flat(c.eval(mixed=mixed))
    if not hasattr(got, 'array'):       # empty sum evaluates to the int 0
        E.check(got == 0 and not any(v in c.free_symbols for v in vs),
                "C15:jacobian:zero-for-dependent-variable")
        E.cover("zero")
        return
    ref = []
    for v in vs:
        ref += diff_entries(base, v)
    arr = flat(got)
    key = "C15:jacobian:not-stacked-gradients"
    if mixed and any('scalar' in str(b) for b in c.boxes):
        key = "C15:circuit:parameter-shift-gradient:with-scalar"
    if len(vs) == 2 and not mixed:
        key = "C15:jacobian:two-variables-pure"
    if len(vs) == 1:
        sym.prove_equal(E, arr, ref, key, info=str(vs))
    else:
        sym.prove_equal(E, arr, ref, key, info=str(vs))
    E.cover(mode)


def tensor_grad(E):
    import sympy
    from discopy import tensor
    from discopy.tensor import Dim
    sym.begin(E)
    x, y = sym.sym(E, 'x'), sym.sym(E, 'y')
    f = tensor.Box('f', Dim(2), Dim(2), [x, 1, x * y, y])
    g = tensor.Box('g', Dim(2), Dim(2), [y * y, x, 0, 2 * x])
    v = tensor.Box('v', Dim(1), Dim(2), [x + y, x * x])
    shape = E.choice('shape', ['compose', 'tensor', 'bubble', 'bubble-inside',
                               'repeated', 'dagger', 'sum'])
    sq = lambda t: t * t
    if shape == 'compose':
        d = v >> f >> g
    elif shape == 'tensor':
        d = v @ v >> f @ g
    elif shape == 'bubble':
        d = v >> (f >> g).bubble(func=lambda t: t ** 3 + t)
    elif shape == 'bubble-inside':
        d = v >> f.bubble(func=lambda t: t ** 2) >> g
    elif shape == 'repeated':
        d = v >> f >> f >> f
    elif shape == 'sum':
        d = f + g
    else:
        d = v >> f >> g.dagger()
    var = E.choice('var', [x, y])
    got = d.grad(var).eval()
    ref = diff_entries(flat(d.eval()), var)
    sym.prove_equal(E, flat(got), ref, "C15:tensor:gradient:" + shape)
    if shape == 'sum':
        E.cover(shape)
        return
    # jacobian stacks the gradients in the order of the variables
    for vs in ([y, x], [x, y, x]):
        J = d.jacobian(vs).eval()
        refJ = []
        for v_ in vs:
            refJ += diff_entries(flat(d.eval()), v_)
        sym.prove_equal(E, flat(J), refJ, "C15:tensor:jacobian:" + shape,
                        info=str(vs))
    # Tensor.grad / jacobian on the evaluated tensor
    t = d.eval()
    sym.prove_equal(E, flat(t.grad(var)), ref, "C15:tensor:Tensor.grad")
    z = sympy.Symbol('zz', real=True)
    E.check(len(d.grad(z).terms) == 0, "C15:tensor:grad-of-constant-not-empty")
    for single in (f, v):
        gz = single.grad(z)
        E.check(isinstance(gz, tensor.Sum) or hasattr(gz, 'terms'),
                "C15:tensor:box-grad-of-constant-not-empty-sum",
                info=repr(gz)[:200])
        if hasattr(gz, 'terms'):
            E.check(len(gz.terms) == 0,
                    "C15:tensor:box-grad-of-constant-not-empty-sum")
    E.cover(shape)


def zx_grad(E):
    import sympy
    from discopy.quantum import zx
    sym.begin(E)
    x, y = sym.sym(E, 'x'), sym.sym(E, 'y')
    d = E.choice('diagram', [
        zx.Z(1, 2, x) >> zx.Id(1) @ zx.X(1, 1, 2 * x + y),
        zx.scalar(x * y) @ zx.Z(1, 1, x) >> zx.H,
        zx.X(0, 2, -x / 2) >> zx.SWAP >> zx.Z(2, 1, x) @ zx.scalar(y)])
    var = E.choice('var', [x, y])
    g = d.grad(var)
    got = None
    for term in g.terms:
        a = np.asarray(zxref.interpret(term).array, dtype=object)
        got = a if got is None else got + a
    ref = diff_entries(flat(zxref.interpret(d)), var)
    if got is None:
        got = np.zeros(len(ref), dtype=object)
    sym.prove_equal(E, list(np.asarray(got, dtype=object).flatten()), ref,
                    "C15:zx:gradient")
    E.cover("zx")


def harnesses(tier):
    q = tier == "quick"
    T = 600 if q else 900
    layers = 1
    more = [] if q else [
        H("circuit_grad_2", circuit_grad,
          dict(layers=2, quadratic=False, kinds=['Rx', 'Rz', 'Ry', 'H'],
               nq=1),
          FUNCS, covers=["pure", "mixed"], engine="SYM (z3 QF_NRA)",
          bounds="Ket(0) then 2 layers from {Rx, Rz, Ry, H} on one qubit with "
          "affine phases (the same symbol may occur in both gates); two "
          "parametrised layers on two qubits do not terminate in z3",
          timeout_s=T, solver_timeout_ms=30000)]
    return more + [
        H("circuit_grad", circuit_grad, dict(layers=layers, quadratic=not q),
          FUNCS, covers=["pure", "mixed", "constant", "refused"],
          engine="SYM (z3 QF_NRA, circle pairs)",
          bounds="Ket(0,0) then %d layer(s) from {Rx,Rz,Ry,CRz,CRx,CU1,scalar,"
          "sqrt,H} with phases in {x, 2x+y, -x/2+1/4, y, x+y%s}; pure and "
          "parameter-shift gradients w.r.t. x and y"
          % (layers, "" if q else ", x^2, xy"),
          outside="float branch; more gates", timeout_s=T,
          solver_timeout_ms=120000),
        H("jacobians", jacobians, {}, FUNCS,
          covers=["pure", "mixed", "empty"], engine="SYM (z3 QF_NRA)",
          bounds="3 circuits x 5 variable lists (incl. unused variables in "
          "front, empty list)", timeout_s=T, solver_timeout_ms=120000),
        H("tensor_grad", tensor_grad, {}, FUNCS,
          covers=['compose', 'tensor', 'bubble', 'bubble-inside', 'repeated',
                  'dagger', 'sum'], engine="SYM (z3 QF_NRA)",
          bounds="6 tensor diagram shapes with polynomial box entries in x, y,"
          " single-wire polynomial bubbles", outside="bubbles on > 1 wire",
          timeout_s=T),
        H("zx_grad", zx_grad, {}, FUNCS, covers=["zx"],
          engine="SYM (z3 QF_NRA)", bounds="3 ZX diagrams with affine spider "
          "phases and polynomial scalars", timeout_s=T)]
