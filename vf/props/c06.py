"""C06 - monoidal normal form is a sound, idempotent, canonical representative."""
from vf.runner import H
from vf.engine import AND, OR, NOT, Abort
from vf import symty, gen, hook
from vf.symty import symlen
from vf.oracles import welltyped, teq
from vf.props.c01 import STUBS_B
from vf.props.c05 import ref_options, check_adjacent

FUNCS = ["discopy.rewriting.normalize", "discopy.rewriting.normal_form",
         "discopy.rewriting.interchange", "discopy.rewriting.foliate",
         "discopy.rewriting.flatten", "discopy.rewriting.foliation",
         "discopy.rewriting.depth"]


def state_of(d):
    return tuple(d.offsets), tuple(id(b) for b in d.boxes)


def legal_exchanges(boxes, offs):
    """spec: all single interchanges of a planar form (concrete)"""
    out = []
    for p in range(len(boxes) - 1):
        b0, b1 = boxes[p], boxes[p + 1]
        o0, o1 = offs[p], offs[p + 1]
        c0, d0, c1, d1 = len(b0.cod), len(b0.dom), len(b1.cod), len(b1.dom)
        res = []
        if o1 >= o0 + c0:
            res.append((o1 - c0 + d0, o0))
        if o0 >= o1 + d1:
            res.append((o1, o0 - d1 + c1))
        for a, b in res:
            nb = boxes[:p] + [b1, b0] + boxes[p + 2:]
            no = offs[:p] + [a, b] + offs[p + 2:]
            out.append((nb, no))
    return out


def interchange_class(d, cap=4000):
    """closure of d under legal interchanges, computed by the oracle"""
    start = (list(d.boxes), list(d.offsets))
    key = lambda s: (tuple(id(b) for b in s[0]), tuple(s[1]))
    seen = {key(start): start}
    todo = [start]
    while todo:
        cur = todo.pop()
        for nxt in legal_exchanges(*cur):
            k = key(nxt)
            if k not in seen:
                seen[k] = nxt
                todo.append(nxt)
                if len(seen) > cap:
                    raise Abort()
    return seen


def connected(d):
    """all boxes connected to one another through shared wires"""
    n = len(d.boxes)
    if n <= 1:
        return True
    scan = [None] * len(d.dom)
    adj = {i: set() for i in range(n)}
    for k, (b, off) in enumerate(zip(d.boxes, d.offsets)):
        for src in scan[off:off + len(b.dom)]:
            if src is not None:
                adj[k].add(src)
                adj[src].add(k)
        scan = scan[:off] + [k] * len(b.cod) + scan[off + len(b.dom):]
    seen, todo = {0}, [0]
    while todo:
        for j in adj[todo.pop()]:
            if j not in seen:
                seen.add(j)
                todo.append(j)
    return len(seen) == n


def longest_chain(d):
    """depth = number of slices of the foliation = longest dependency chain
    (boxes on a shared wire must be in different slices)"""
    scan = [None] * len(d.dom)
    level = []
    for k, (b, off) in enumerate(zip(d.boxes, d.offsets)):
        lv = 1 + max([level[s] for s in scan[off:off + len(b.dom)]
                      if s is not None] or [0])
        level.append(lv)
        scan = scan[:off] + [k] * len(b.cod) + scan[off + len(b.dom):]
    return max(level or [0])


def rebuild(d, boxes, offs):
    from discopy.monoidal import Diagram
    return Diagram(d.dom, d.cod, boxes, offs)


def check_trace(E, d, left, key):
    """every yielded step is one legal interchange of its predecessor;
    returns the final diagram or None when the cycle detector fires"""
    cur, seen, steps = d, set(), 0
    for nxt in d.normalize(left=left):
        steps += 1
        ok = any(tuple(id(b) for b in nb) == tuple(id(b) for b in nxt.boxes)
                 and no == list(nxt.offsets)
                 for nb, no in legal_exchanges(list(cur.boxes),
                                               list(cur.offsets)))
        E.check(ok, key + ":step-not-a-legal-interchange",
                info="%s -> %s" % (cur, nxt))
        E.check(welltyped(nxt) and bool(nxt.dom == d.dom)
                and bool(nxt.cod == d.cod), key + ":step-illtyped")
        cur = nxt
        s = state_of(cur)
        if s in seen or steps > 4 * (len(d.boxes) ** 3) + 10:
            return None, steps
        seen.add(s)
    return cur, steps


def normal_forms(E, k, w, a, names):
    from discopy import monoidal
    hook.enable(True)
    try:
        nm = ['f%d' % i for i in range(k)] if names == 'distinct' \
            else ['f'] * k
        d = gen.modea_diagram(E, 'd', k, w, a, [monoidal.Ob('x')], monoidal,
                              names=nm)
        conn = connected(d)
        left = E.choice('left', [False, True])
        cls = interchange_class(d)
        fin, steps = check_trace(E, d, left, "C06:normalize")
        try:
            nf = d.normal_form(left=left)
            refused = False
        except NotImplementedError:
            refused = True
        if conn:
            E.check(not refused, "C06:normal_form:refused-connected-diagram",
                    info=str(d))
            E.check(fin is not None, "C06:normalize:does-not-terminate")
            if refused or fin is None:
                return
            E.check((tuple(id(b) for b in nf.boxes), tuple(nf.offsets)) in cls,
                    "C06:normal_form:not-in-interchanger-class")
            E.check(bool(nf.normal_form(left=left) == nf),
                    "C06:normal_form:not-idempotent", info=str(d))
            # canonical: every member of the class has the same normal form
            for boxes, offs in list(cls.values())[:60]:
                other = rebuild(d, boxes, offs)
                try:
                    E.check(bool(other.normal_form(left=left) == nf),
                            "C06:normal_form:not-canonical",
                            info="%s vs %s" % (d, other))
                except NotImplementedError:
                    E.fail("C06:normal_form:refused-connected-diagram",
                           info=str(other))
            E.cover("connected")
        else:
            # disconnected: a sound fixed point or NotImplementedError
            if not refused:
                E.check((tuple(id(b) for b in nf.boxes), tuple(nf.offsets))
                        in cls, "C06:normal_form:not-in-interchanger-class")
                E.cover("disconnected-ok")
            else:
                E.cover("disconnected-refused")
        # foliation / depth
        fl = d.foliation().flatten()
        E.check((tuple(id(b) for b in fl.boxes), tuple(fl.offsets)) in cls
                or names != 'distinct', "C06:foliation:not-in-class")
        # (depth is not part of the property: a box enclosed between two
        # wires of an earlier box needs its own slice although it shares no
        # wire with it, so "longest wire chain" would demand too much)
        E.check(d.depth() >= longest_chain(d), "C06:depth:below-longest-chain")
    finally:
        hook.enable(False)


def conditionB(E, N):
    """Mode B: whenever normalize decides to move boxes i, i+1 the move is
    legal in the documented orientation; when it stops, no exchange of that
    orientation remains (3 boxes, symbolic widths)"""
    symty.setN(N)
    d = gen.modeb_diagram(E, 3, N, 'a')
    left = E.choice('left', [False, True])
    it = d.normalize(left=left)
    try:
        nxt = next(it)
    except StopIteration:
        # fixed point: no pair can be exchanged in the chosen orientation
        conds = []
        for p in range(2):
            opts = ref_options(d, p)
            conds.append(NOT(opts[0][0] if left else opts[1][0]))
        E.check(AND(*conds), "C06:normalize:stops-with-a-move-left")
        E.cover("fixed-point")
        return
    # which pair moved?
    p = 0 if nxt.boxes[0] is d.boxes[1] else 1
    opts = ref_options(d, p)
    E.check(opts[0][0] if left else opts[1][0],
            "C06:normalize:moved-without-the-documented-condition")
    check_adjacent(E, d, nxt, p, "C06:normalize:step")
    E.cover("moved")


def families(E, nmax):
    """named worst-case family: the spiral of arXiv:1804.07832"""
    from discopy.monoidal import Ty, Box, Id
    n = E.choice('n_cups', range(1, nmax + 1))
    x = Ty('x')
    unit, counit = Box('unit', Ty(), x), Box('counit', x, Ty())
    cup, cap = Box('cup', x @ x, Ty()), Box('cap', Ty(), x @ x)
    d = unit
    for i in range(n):
        d = d >> Id(x ** i) @ cap @ Id(x ** (i + 1))
    d = d >> Id(x ** n) @ counit @ Id(x ** n)
    for i in range(n):
        d = d >> Id(x ** (n - i - 1)) @ cup @ Id(x ** (n - i - 1))
    E.check(connected(d), "harness:spiral-connected")
    left = E.choice('left', [False, True])
    try:
        nf = d.normal_form(left=left)
    except NotImplementedError:
        E.fail("C06:normal_form:refused-connected-diagram",
               info="spiral(%d)" % n)
        return
    steps = list(d.normalize(left=left))
    cur = d
    for nxt in steps:
        ok = any([id(b) for b in nb] == [id(b) for b in nxt.boxes]
                 and no == list(nxt.offsets)
                 for nb, no in legal_exchanges(list(cur.boxes),
                                               list(cur.offsets)))
        E.check(ok, "C06:normalize:step-not-a-legal-interchange")
        cur = nxt
    E.check(bool(nf.normal_form(left=left) == nf),
            "C06:normal_form:not-idempotent")
    E.check(len(steps) <= 4 * len(d) ** 3, "C06:normalize:more-than-cubic")
    E.cover("spiral")


def harnesses(tier):
    q = tier == "quick"
    T = 600 if q else 900
    hs = []
    for names in ('distinct', 'repeated'):
        k, w, a = (3, 3, 2) if q else (4, 3, 2)
        hs.append(H("normal_forms_" + names, normal_forms,
                    dict(k=k, w=w, a=a, names=names), FUNCS,
                    covers=["connected", "disconnected-ok"],
                    engine="DSE (shapes enumerated; labels do not influence "
                    "interchange) + oracle closure of the interchanger class",
                    bounds="all diagrams of %d boxes (%s names), arity <= %d "
                    "incl. empty dom/cod, width <= %d; both left and right "
                    "normal forms; every member (<= 60) of the interchanger "
                    "class" % (k, names, a, w),
                    outside="more boxes (exhaustively)", timeout_s=T))
    hs.append(H("conditionB", conditionB, dict(N=3 if q else 4), FUNCS,
                covers=["fixed-point", "moved"], modeb=True, stubs=STUBS_B,
                engine="DSE Mode B (symbolic widths, arities, offsets)",
                bounds="3 boxes, widths <= %d symbolic" % (3 if q else 4),
                timeout_s=T))
    hs.append(H("families", families, dict(nmax=4 if q else 6), FUNCS,
                covers=["spiral"], engine="DSE (choices): named family",
                bounds="spiral(n) for n <= %d cups (up to %d boxes)"
                % ((4, 10) if q else (6, 14)), timeout_s=T))
    return hs
