"""C05 - interchange moves exactly one box past a disconnected neighbour."""
from vf.runner import H
from vf.engine import AND, OR, NOT, Abort
from vf import symty, gen, hook
from vf.symty import symlen
from vf.oracles import welltyped, teq, same_value
from vf.props.c01 import STUBS_B

FUNCS = ["discopy.rewriting.interchange", "discopy.rewriting.InterchangerError",
         "discopy.monoidal.Diagram.__init__", "discopy.monoidal.Layer.__init__",
         "discopy.cat.Arrow.then", "discopy.cat.Arrow.__getitem__"]


def ref_options(d, p):
    """spec: legal exchanges of boxes p, p+1 -> [(cond, off_first, off_second)]
    (box p+1 comes first afterwards)."""
    b0, b1 = d.boxes[p], d.boxes[p + 1]
    o0, o1 = d.offsets[p], d.offsets[p + 1]
    c0, d0 = symlen(b0.cod), symlen(b0.dom)
    c1, d1 = symlen(b1.cod), symlen(b1.dom)
    return [(o1 >= o0 + c0, o1 - c0 + d0, o0),       # b0 left of b1
            (o0 >= o1 + d1, o1, o0 - d1 + c1)]       # b0 right of b1


def check_adjacent(E, d, r, p, tag):
    """r must be d with boxes p, p+1 exchanged in one of the legal ways"""
    k = len(d.boxes)
    E.check(len(r.boxes) == k, tag + ":box-count")
    same = [r.boxes[q] is d.boxes[q] and True for q in range(k)
            if q not in (p, p + 1)]
    E.check(all(same) and r.boxes[p] is d.boxes[p + 1]
            and r.boxes[p + 1] is d.boxes[p], tag + ":boxes-not-permuted")
    others = AND(*[r.offsets[q] == d.offsets[q] for q in range(k)
                   if q not in (p, p + 1)]) if k > 2 else True
    E.check(others, tag + ":other-box-moved")
    opts = ref_options(d, p)
    E.check(OR(*[AND(c, r.offsets[p] == a, r.offsets[p + 1] == b)
                 for c, a, b in opts]), tag + ":not-a-legal-exchange")
    E.check(AND(teq(r.dom, d.dom), teq(r.cod, d.cod)), tag + ":dom-cod")
    E.check(welltyped(r), tag + ":illtyped")


def adjB(E, k, N):
    """adjacent interchange, everything symbolic (Mode B)"""
    from discopy.rewriting import InterchangerError
    symty.setN(N)
    d = gen.modeb_diagram(E, k, N, 'a')
    p = E.choice('p', range(k - 1))
    order = E.choice('order', ['up', 'down'])
    left = E.choice('left', [False, True])
    i, j = (p, p + 1) if order == 'up' else (p + 1, p)
    opts = ref_options(d, p)
    legal = OR(*[c for c, _, _ in opts])
    try:
        r = d.interchange(i, j, left=left)
    except InterchangerError:
        E.cover("refused")
        E.check(NOT(legal), "C05:adjacent:refused-legal-exchange")
        return
    E.cover("moved")
    E.check(legal, "C05:adjacent:accepted-connected")
    check_adjacent(E, d, r, p, "C05:adjacent")
    # which side did it take? (for the vacuity classes)
    if bool(opts[0][0]) and not bool(opts[1][0]):
        E.cover("box0-left")
    elif bool(opts[1][0]) and not bool(opts[0][0]):
        E.cover("box0-right")
    else:
        E.cover("both-legal")


def rangeB(E, k, N):
    """index validation and the long move = composite of adjacent moves"""
    from discopy.rewriting import InterchangerError
    symty.setN(N)
    d = gen.modeb_diagram(E, k, N, 'a')
    i, j = E.int('i', -k - 1, k + 1), E.int('j', -k - 1, k + 1)
    left = E.choice('left', [False, True])
    inrange = AND(i >= 0, i < k, j >= 0, j < k)
    try:
        r = d.interchange(i, j, left=left)
    except IndexError:
        E.cover("indexerror")
        E.check(NOT(inrange), "C05:index:refused-in-range")
        return
    except InterchangerError:
        r = None
    E.check(inrange, "C05:index:accepted-out-of-range")
    i, j = int(i), int(j)
    # reference: fold of adjacent moves (each verified by adjB)
    ref, failed = d, False
    step = 1 if j > i else -1
    for q in range(i, j, step):
        try:
            ref = ref.interchange(q, q + step, left=left)
        except InterchangerError:
            failed = True
            break
    if r is None:
        E.cover("refused")
        E.check(failed, "C05:long:refused-but-every-step-legal")
        return
    E.cover("moved" if i != j else "noop")
    E.check(not failed, "C05:long:accepted-though-a-step-is-refused")
    E.check(same_value(r, ref), "C05:long:not-the-composite-of-adjacent-moves")
    exp = list(range(k))
    exp.insert(j, exp.pop(i))
    E.check(all(r.boxes[q] is d.boxes[exp[q]] for q in range(k)),
            "C05:long:box-i-not-at-position-j")
    E.check(AND(teq(r.dom, d.dom), teq(r.cod, d.cod)), "C05:long:dom-cod")
    E.check(welltyped(r), "C05:long:illtyped")


def seqA(E, k, w, a, L, steps):
    """histories: sequences of interchanges stay well-typed, keep the boxes,
    and every single step is a legal exchange (Mode A, hook on)"""
    from discopy.rewriting import InterchangerError
    hook.enable(True)
    try:
        d = gen.modea_diagram(E, 'a', k, w, a, L)
        cur = d
        for s in range(steps):
            p = E.choice('p%d' % s, range(k - 1))
            left = E.choice('left%d' % s, [False, True])
            up = E.choice('up%d' % s, [True, False])
            legal = OR(*[c for c, _, _ in ref_options(cur, p)])
            try:
                nxt = cur.interchange(*((p, p + 1) if up else (p + 1, p)),
                                      left=left)
            except InterchangerError:
                E.cover("refused")
                E.check(NOT(legal), "C05:adjacent:refused-legal-exchange")
                continue
            E.cover("moved")
            E.check(legal, "C05:adjacent:accepted-connected")
            check_adjacent(E, cur, nxt, p, "C05:sequence")
            cur = nxt
        E.check(sorted(map(id, cur.boxes)) == sorted(map(id, d.boxes)),
                "C05:sequence:boxes-changed")
    finally:
        hook.enable(False)


def foliated(E, k, w, a):
    """interchange on diagrams whose boxes are themselves diagrams (the
    slices of a foliation)"""
    from discopy import monoidal
    from discopy.rewriting import InterchangerError
    shape = E.choice('shape', ['foliation', 'side-by-side'])
    if shape == 'foliation':
        d = gen.modea_diagram(E, 'a', k, w, a, [monoidal.Ob('x')])
        f = d.foliation()
    else:
        # two composite diagrams used as boxes, one whiskered after the other
        c1 = gen.modea_diagram(E, 'a', 2, 2, a, [monoidal.Ob('x')])
        c2 = gen.modea_diagram(E, 'b', 1, 2, a, [monoidal.Ob('y')])
        first = E.choice('first', ['left', 'right'])
        dom, cod = c1.dom @ c2.dom, c1.cod @ c2.cod
        if first == 'left':
            f = monoidal.Diagram(dom, cod, [c1, c2], [0, len(c1.cod)])
        else:
            f = monoidal.Diagram(dom, cod, [c2, c1], [len(c1.dom), 0])
    n = len(f.boxes)
    if n < 2:
        raise Abort()
    p = E.choice('p', range(n - 1))
    left = E.choice('left', [False, True])
    up = E.choice('up', [True, False])
    legal = OR(*[c for c, _, _ in ref_options(f, p)])
    try:
        r = f.interchange(*((p, p + 1) if up else (p + 1, p)), left=left)
    except InterchangerError:
        E.cover("refused")
        E.check(NOT(legal), "C05:foliated:refused-legal-exchange")
        return
    E.cover("moved")
    E.check(legal, "C05:foliated:accepted-connected")
    check_adjacent(E, f, r, p, "C05:foliated")


def semantic(E, w):
    """the result denotes the same morphism: the real tensor.Functor with
    generic symbolic box arrays gives the same tensor before and after the
    interchange (z3 decides the polynomial identity)"""
    import numpy as np
    from vf import sym
    from vf.props.c09 import gen_rigid, Interp, prod
    from discopy import tensor, rigid
    from discopy.rewriting import InterchangerError
    sym.begin(E)
    boxes = []
    d = gen_rigid(E, 2, w, boxes, allow=('box',))
    left = E.choice('left', [False, True])
    try:
        r = d.interchange(0, 1, left=left)
    except InterchangerError:
        E.cover("refused")
        return
    dims = {'x': 2, 'y': 2}
    I = Interp(dims, {})
    arrays = {}
    for b in boxes:
        shape = I.ty(b.dom) + I.ty(b.cod)
        arrays[b.name] = sym.carr(E, b.name, shape)
    F = tensor.Functor(ob={rigid.Ty('x'): 2, rigid.Ty('y'): 2},
                       ar=lambda f: arrays[f.name])
    sym.prove_equal(E, F(r).array, F(d).array,
                    "C05:semantic:interchange-changes-the-denotation",
                    info="%s -> %s" % (d, r))
    E.cover("moved")


def harnesses(tier):
    q = tier == "quick"
    T = 600 if q else 900
    hs = []
    for k, N in ([(2, 4), (3, 3)] if q else [(2, 6), (3, 4)]):
        hs.append(H("adjB_k%d" % k, adjB, dict(k=k, N=N), FUNCS,
                    covers=["refused", "moved", "box0-left", "box0-right",
                            "both-legal"], modeb=True, stubs=STUBS_B,
                    bounds="Mode B: adjacent exchange in diagrams of %d boxes,"
                    " widths <= %d symbolic, arities/offsets/labels arbitrary"
                    % (k, N), outside="wider types", timeout_s=T))
    for k, N in ([(2, 3), (3, 2)] if q else [(3, 3), (4, 2)]):
        hs.append(H("rangeB_k%d" % k, rangeB, dict(k=k, N=N), FUNCS,
                    covers=["indexerror", "refused", "moved", "noop"],
                    modeb=True, stubs=STUBS_B,
                    bounds="Mode B: interchange(i, j) with i, j symbolic in "
                    "[-k-1, k+1], %d boxes, widths <= %d" % (k, N),
                    outside="more boxes, wider types", timeout_s=T))
    hs.append(H("foliated", foliated, dict(k=3 if q else 4, w=3, a=2), FUNCS
                + ["discopy.rewriting.foliation", "discopy.rewriting.foliate"],
                covers=["refused", "moved"], engine="DSE (choices)",
                bounds="foliations of diagrams of %d boxes (width <= 3, arity "
                "<= 2, 2 labels): adjacent interchange of slices, i.e. of "
                "boxes that are composite diagrams" % (3 if q else 4),
                timeout_s=T))
    hs.append(H("semantic", semantic, dict(w=4), FUNCS
                + ["discopy.tensor.Functor.__call__"],
                covers=["refused", "moved"], engine="SYM (z3 QF_NRA)",
                bounds="two boxes of arity <= 2 at every offset, width <= 4, "
                "dimension 2, generic symbolic box arrays", timeout_s=T))
    k, w, a, L, steps = (3, 2, 1, 2, 2) if q else (3, 2, 2, 2, 2)
    hs.append(H("seqA", seqA, dict(k=k, w=w, a=a, L=L, steps=steps), FUNCS,
                covers=["refused", "moved"], modeb=True,
                bounds="Mode A: %d-step interchange histories on diagrams of "
                "%d boxes, width <= %d, arity <= %d, %d symbolic labels"
                % (steps, k, w, a, L), outside="longer histories",
                timeout_s=T))
    return hs
