"""C16 - circuits translate to ZX diagrams denoting the same linear map."""
import numpy as np

from vf.runner import H
from vf.engine import Abort
from vf import sym, zxref
from vf.props.c11 import conj_T, gate

FUNCS = ["discopy.quantum.zx.gate2zx", "discopy.quantum.zx.Spider.dagger",
         "discopy.quantum.zx.Scalar.dagger", "discopy.quantum.zx.Had.dagger",
         "discopy.rigid.Functor.__call__", "discopy.tensor.Functor.__call__",
         "discopy.quantum.circuit.Circuit.eval"]


def validate_reference():
    """reference spiders agree with pyzx's own tensors at concrete phases"""
    import pyzx
    import sympy
    from fractions import Fraction
    for kind, vt in (('Z', pyzx.VertexType.Z), ('X', pyzx.VertexType.X)):
        for (m, n) in ((1, 1), (1, 2), (2, 1), (0, 2), (2, 0)):
            for ph in (Fraction(0), Fraction(1, 4), Fraction(3, 8)):
                g = pyzx.Graph()
                ins = [g.add_vertex(0, i, 0) for i in range(m)]
                v = g.add_vertex(vt, 0, 1, phase=ph * 2)
                outs = [g.add_vertex(0, i, 2) for i in range(n)]
                for i in ins + outs:
                    g.add_edge((i, v))
                g.set_inputs(tuple(ins))
                g.set_outputs(tuple(outs))
                t = pyzx.tensorfy(g, preserve_scalar=True)
                ref = zxref.spider_array(kind, m, n, sympy.Rational(
                    ph.numerator, ph.denominator))
                ref = np.array([complex(sympy.N(x)) for x in ref.flatten()])
                # pyzx tensor axes: inputs then outputs
                got = np.asarray(t).flatten()
                i = int(np.argmax(abs(ref)))
                if abs(got[i]) < 1e-9 or not np.allclose(
                        got * ref[i], ref * got[i], atol=1e-8):
                    raise RuntimeError("reference spider %s(%d,%d,%s) "
                                       "disagrees with pyzx" % (kind, m, n, ph))


def gates(E):
    """every supported gate alone, symbolic phase"""
    import sympy
    from discopy.quantum import gates as G, zx
    sym.begin(E)
    name = E.choice('gate', ['Rz', 'Rx', 'CRz', 'CRx', 'CU1', 'H', 'X', 'Y',
                             'Z', 'CX', 'CZ', 'SWAP', 'Ket', 'Bra', 'scalar'])
    if name in ('Rz', 'Rx', 'CRz', 'CRx', 'CU1'):
        phi = sym.sym(E, 'phi')
        form = E.choice('form', ['phi', '-phi', 'phi+1/2'])
        expr = {'phi': phi, '-phi': -phi,
                'phi+1/2': phi + sympy.Rational(1, 2)}[form]
        c = gate(name, expr)
    elif name in ('Ket', 'Bra'):
        n = E.choice('n', [1, 2])
        bits = [E.choice('b%d' % i, [0, 1]) for i in range(n)]
        c = getattr(G, name)(*bits)
    elif name == 'scalar':
        u, v = sym.sym(E, 'u'), sym.sym(E, 'v')
        c = G.scalar(u + sympy.I * v)
    else:
        c = getattr(G, name)
    z = zx.circuit2zx(c)
    E.check(len(z.dom) == len(c.dom) and len(z.cod) == len(c.cod),
            "C16:gate2zx:%s:wire-count" % name)
    A = zxref.interpret(z).array
    B = c.eval().array
    if name == 'scalar':
        sym.prove_equal(E, A, B, "C16:gate2zx:scalar")
    else:
        sym.prove_equal(E, A, B, "C16:gate2zx:%s" % name, prop=True)
    E.cover(name)


def circuits(E, n, m):
    import sympy
    from discopy.quantum import gates as G, zx
    from discopy.quantum.circuit import Id
    sym.begin(E)
    prep = E.choice('prep', ['none', 'ket'])
    c = Id(n)
    if prep == 'ket':
        c = G.Ket(*[E.choice('k%d' % i, [0, 1]) for i in range(n)])
    for layer in range(m):
        nm = E.choice('g%d' % layer, ['Rz', 'Rx', 'CRz', 'CRx', 'CU1', 'H',
                                      'CX', 'CZ', 'SWAP', 'Y'])
        if nm in ('Rz', 'Rx', 'CRz', 'CRx', 'CU1'):
            g = gate(nm, sym.sym(E, 'p%d' % layer))
        else:
            g = getattr(G, nm)
        k = len(g.dom)
        if k > n:
            raise Abort()
        off = E.choice('off%d' % layer, range(n - k + 1))
        c = c >> Id(off) @ g @ Id(n - off - k)
    post = E.choice('post', ['none', 'bra'])
    if post == 'bra':
        c = c >> G.Bra(*[0] * (n - 1)) @ Id(1)
    z = zx.circuit2zx(c)
    E.check(len(z.dom) == len(c.dom) and len(z.cod) == len(c.cod),
            "C16:circuit2zx:wire-count")
    sym.prove_equal(E, zxref.interpret(z).array, c.eval().array,
                    "C16:circuit2zx:not-proportional", prop=True)
    E.cover("circuit")


def daggers(E):
    """the dagger of a ZX diagram denotes the conjugate transpose"""
    import sympy
    from discopy.quantum import zx
    sym.begin(E)
    kind = E.choice('kind', ['Z', 'X', 'H', 'scalar', 'diagram'])
    if kind in ('Z', 'X'):
        m = E.choice('m', [0, 1, 2])
        n = E.choice('n', [0, 1, 2])
        phi = sym.sym(E, 'phi')
        d = getattr(zx, kind)(m, n, phi)
    elif kind == 'H':
        d = zx.H
        m = n = 1
    elif kind == 'scalar':
        u, v = sym.sym(E, 'u'), sym.sym(E, 'v')
        d = zx.scalar(u + sympy.I * v)
        m = n = 0
    else:
        phi, psi = sym.sym(E, 'phi'), sym.sym(E, 'psi')
        u, v = sym.sym(E, 'u'), sym.sym(E, 'v')
        which = E.choice('which', [0, 1, 2])
        d = [zx.Z(1, 2, phi) >> zx.Id(1) @ zx.H >> zx.X(2, 1, psi),
             zx.scalar(u + sympy.I * v) @ zx.Z(1, 2, phi) >> zx.SWAP
             >> zx.X(1, 0, psi) @ zx.Id(1),
             zx.X(0, 2, phi) @ zx.scalar(u) >> zx.H @ zx.Z(1, 1, psi)][which]
        m, n = len(d.dom), len(d.cod)
    A = zxref.interpret(d).array
    Dg = zxref.interpret(d.dagger()).array
    M = np.asarray(A, dtype=object).reshape(2 ** m, 2 ** n)
    sym.prove_equal(E, np.asarray(Dg, dtype=object).reshape(2 ** n, 2 ** m),
                    conj_T(M), "C16:dagger:%s" % kind)
    E.check(len(d.dagger().dom) == n and len(d.dagger().cod) == m,
            "C16:dagger:wire-count")
    E.cover(kind)


def selftest(E):
    validate_reference()
    E.cover("validated")


def harnesses(tier):
    q = tier == "quick"
    T = 600 if q else 900
    hs = [H("reference_vs_pyzx", selftest, {}, [], covers=["validated"],
            engine="numeric cross-validation of the reference spiders against "
            "pyzx.tensorfy", bounds="Z/X spiders of arity (1,1),(1,2),(2,1),"
            "(0,2),(2,0) at phases 0, 1/4, 3/8", timeout_s=T),
          H("gates", gates, {}, FUNCS,
            covers=['Rz', 'Rx', 'CRz', 'CRx', 'CU1', 'H', 'CX', 'Ket',
                    'scalar'], engine="SYM (z3 QF_NRA, proportionality as "
            "vanishing 2x2 minors)", bounds="each supported gate alone; "
            "rotation phases phi, -phi, phi+1/2 for a real symbol phi; "
            "Ket/Bra up to 2 bits; scalar u+iv symbolic",
            outside="mixed scalars (NotImplementedError)", timeout_s=T,
            solver_timeout_ms=120000)]
    if not q:
        hs.append(H("circuits_3q", circuits, dict(n=3, m=1), FUNCS,
                    covers=["circuit"], engine="SYM (z3 QF_NRA)",
                    bounds="3 qubits, 1 layer, every gate at every offset, "
                    "optional Ket preparation and Bra post-selection",
                    timeout_s=T, solver_timeout_ms=60000))
    n, m = (2, 2)
    hs.append(H("circuits", circuits, dict(n=n, m=m), FUNCS,
                covers=["circuit"], engine="SYM (z3 QF_NRA)",
                bounds="%d qubits, %d layers over {Rz,Rx,CRz,CRx,CU1,H,CX,CZ,"
                "SWAP,Y} with one phase symbol per rotation, optional Ket "
                "preparation and Bra post-selection" % (n, m),
                outside="more qubits / layers", timeout_s=T,
                solver_timeout_ms=120000))
    hs.append(H("daggers", daggers, {}, FUNCS,
                covers=['Z', 'X', 'H', 'scalar', 'diagram'],
                engine="SYM (z3 QF_NRA)", bounds="spiders of arity <= 2+2 "
                "with symbolic phase, H, symbolic complex scalar, 3 composite "
                "diagrams", outside="larger diagrams", timeout_s=T))
    return hs
