"""C20 - the drawing layout is a faithful planar embedding of the diagram."""
import ast
import inspect
import os
import tempfile
import textwrap

import z3

from vf.runner import H
from vf.engine import SymReal, SymBool, AND, Abort, lift_r, P
from vf import gen
from vf.oracles import wiring

FUNCS = ["discopy.drawing.diagram2nx", "discopy.drawing.nx2diagram",
         "discopy.drawing.diagramize", "discopy.drawing.draw",
         "discopy.drawing.add_drawing_attributes",
         "discopy.monoidal.Diagram.open_bubbles"]


def extract_kernels():
    """pull the nested closures of diagram2nx out of the *current* source"""
    from discopy import drawing
    src = textwrap.dedent(inspect.getsource(drawing.diagram2nx))
    fn = ast.parse(src).body[0]
    nested = {n.name: n for n in fn.body if isinstance(n, ast.FunctionDef)}
    if not {'add_node', 'add_box', 'make_space'} <= set(nested):
        return None
    return nested


class FakeDiagram:
    def __init__(self, n):
        self.n = n

    def __len__(self):
        return self.n


def rlt(a, b):
    return SymBool(lift_r(a) < lift_r(b)) if (
        isinstance(a, SymReal) or isinstance(b, SymReal)) else a < b


def req(a, b):
    return SymBool(lift_r(a) == lift_r(b)) if (
        isinstance(a, SymReal) or isinstance(b, SymReal)) else a == b


def layout_step(E, S, PA, QA):
    """inductive step: make_space + add_box from an arbitrary sorted scan
    with real-valued x coordinates preserve the planarity invariant"""
    import networkx as nx
    from discopy import drawing
    from discopy.drawing import Node
    from discopy.monoidal import Ty, Box
    nested = extract_kernels()
    if nested is None:
        E.cover("extraction-failed")     # refactored: fall back to `whole`
        return
    s = E.choice('s', range(S + 1))
    a = E.choice('a', range(min(PA, s) + 1))
    b = E.choice('b', range(QA + 1))
    off = E.choice('off', range(s - a + 1))
    x = Ty('x')
    box = Box('f', x ** a, x ** b)
    for attr, default in drawing.ATTRIBUTES.items():
        setattr(box, attr, getattr(box, attr, default(box)))
    graph, pos = nx.DiGraph(), dict()
    ns = dict(graph=graph, pos=pos, Node=Node, diagram=FakeDiagram(3),
              len=len, getattr=getattr, enumerate=enumerate)
    mod = ast.Module(body=[nested['add_node'], nested['add_box'],
                           nested['make_space']], type_ignores=[])
    exec(compile(mod, 'diagram2nx-kernels', 'exec'), ns)
    scan, xs = [], []
    for i in range(s):
        node = Node("cod", obj=x[0], i=i, depth=0)
        xi = E.real('x%d' % i)
        xs.append(xi)
        if i:
            E.assume(rlt(xs[i - 1], xi))
        graph.add_node(node)
        pos[node] = (xi, 2.25)
        scan.append(node)
    hist = []
    for j in range(2):          # two arbitrary history nodes
        node = Node("box", box=None, depth=-1 - j)
        hx = E.real('h%d' % j)
        graph.add_node(node)
        pos[node] = (hx, 5)
        hist.append(node)
    old = {n: pos[n][0] for n in pos}
    x_pos = ns['make_space'](scan, box, off)
    new_scan = ns['add_box'](scan, box, off, 1, x_pos)
    conds = []
    olds = list(old.items())
    for i, (n1, o1) in enumerate(olds):
        for n2, o2 in olds[i + 1:]:
            # shifts are order- and equality-preserving on existing nodes
            conds.append(SymBool(z3.Implies(
                lift_r(o1) < lift_r(o2),
                lift_r(pos[n1][0]) < lift_r(pos[n2][0]))) if any(
                    isinstance(v, SymReal) for v in (o1, o2)) else (
                        not (o1 < o2) or pos[n1][0] < pos[n2][0]))
            conds.append(SymBool(z3.Implies(
                lift_r(o1) == lift_r(o2),
                lift_r(pos[n1][0]) == lift_r(pos[n2][0]))) if any(
                    isinstance(v, SymReal) for v in (o1, o2)) else (
                        not (o1 == o2) or pos[n1][0] == pos[n2][0]))
    E.check(AND(*conds) if conds else True, "C20:step:shift-not-monotone")
    E.check(AND(*[rlt(pos[n1][0], pos[n2][0])
                  for n1, n2 in zip(new_scan, new_scan[1:])])
            if len(new_scan) > 1 else True,
            "C20:step:open-wires-not-strictly-increasing")
    E.check(AND(*[req(pos[Node("dom", obj=x[0], i=i, depth=1)][0],
                      pos[scan[off + i]][0]) for i in range(a)])
            if a else True, "C20:step:wire-not-vertical")
    bx = pos[Node("box", box=box, depth=1)][0]
    cs = []
    if off:
        cs.append(rlt(pos[scan[off - 1]][0], bx))
    if off + a < s:
        cs.append(rlt(bx, pos[scan[off + a]][0]))
    E.check(AND(*cs) if cs else True, "C20:step:box-overlaps-neighbour-wire")
    # the ports of the box stay strictly between the neighbouring wires too
    cs = []
    for i in range(b):
        px = pos[Node("cod", obj=x[0], i=i, depth=1)][0]
        if off:
            cs.append(rlt(pos[scan[off - 1]][0], px))
        if off + a < s:
            cs.append(rlt(px, pos[scan[off + a]][0]))
    E.check(AND(*cs) if cs else True, "C20:step:port-crosses-neighbour-wire")
    E.cover("step")


def gen_plain(E, k, w, a):
    """concrete diagram shapes (labels irrelevant for the layout)"""
    from discopy import monoidal
    return gen.modea_diagram(E, 'd', k, w, a, [monoidal.Ob('x')], monoidal,
                             names=['f%d' % i for i in range(k)])


def whole(E, k, w, a, backends):
    """the whole diagram2nx: node set, wiring, downward edges, planarity"""
    from discopy import drawing
    from discopy.drawing import Node
    d = gen_plain(E, k, w, a)
    graph, pos = drawing.diagram2nx(d)
    n_in, n_out = len(d.dom), len(d.cod)
    exp_nodes = n_in + n_out + len(d.boxes) + sum(
        len(b.dom) + len(b.cod) for b in d.boxes)
    E.check(len(graph.nodes) == exp_nodes == len(pos),
            "C20:whole:node-count", info="%d vs %d" % (len(graph.nodes),
                                                      exp_nodes))
    # edges reproduce the wiring
    def node_of(end, as_source):
        kind, kbox, port = end
        if kind == 'in':
            return Node("input", obj=d.dom[port], i=port)
        if kind == 'out':
            return Node("output", obj=d.cod[port], i=port)
        b = d.boxes[kbox]
        return Node("cod", obj=b.cod[port], i=port, depth=kbox) if as_source \
            else Node("dom", obj=b.dom[port], i=port, depth=kbox)
    exp_edges = set()
    for src, tgt in wiring(d):
        exp_edges.add((node_of(src, True), node_of(tgt, False)))
    for kb, b in enumerate(d.boxes):
        bn = Node("box", box=b, depth=kb)
        for i in range(len(b.dom)):
            exp_edges.add((Node("dom", obj=b.dom[i], i=i, depth=kb), bn))
        for i in range(len(b.cod)):
            exp_edges.add((bn, Node("cod", obj=b.cod[i], i=i, depth=kb)))
    E.check(set(graph.edges) == exp_edges, "C20:whole:edges-differ-from-wiring")
    E.check(all(pos[u][1] > pos[v][1] for u, v in graph.edges),
            "C20:whole:edge-not-downwards")
    # planarity invariant on the final coordinates
    scan = [Node("input", obj=d.dom[i], i=i) for i in range(n_in)]
    ok_sorted = ok_vertical = ok_box = True
    for kb, (b, off) in enumerate(zip(d.boxes, d.offsets)):
        xs = [pos[n][0] for n in scan]
        ok_sorted = ok_sorted and all(x1 < x2 for x1, x2 in zip(xs, xs[1:]))
        for i in range(len(b.dom)):
            dn = Node("dom", obj=b.dom[i], i=i, depth=kb)
            ok_vertical = ok_vertical and pos[dn][0] == pos[scan[off + i]][0]
        bx = pos[Node("box", box=b, depth=kb)][0]
        if off:
            ok_box = ok_box and pos[scan[off - 1]][0] < bx
        if off + len(b.dom) < len(scan):
            ok_box = ok_box and bx < pos[scan[off + len(b.dom)]][0]
        scan = scan[:off] + [Node("cod", obj=b.cod[i], i=i, depth=kb)
                             for i in range(len(b.cod))] \
            + scan[off + len(b.dom):]
    xs = [pos[n][0] for n in scan]
    ok_sorted = ok_sorted and all(x1 < x2 for x1, x2 in zip(xs, xs[1:]))
    for i in range(n_out):
        ok_vertical = ok_vertical and pos[Node(
            "output", obj=d.cod[i], i=i)][0] == pos[scan[i]][0]
    E.check(ok_sorted, "C20:whole:open-wires-not-strictly-increasing")
    E.check(ok_vertical, "C20:whole:wire-not-vertical")
    E.check(ok_box, "C20:whole:box-overlaps-neighbour-wire")
    if backends and (len(d.boxes) or n_in):
        import matplotlib
        matplotlib.use("Agg")
        import matplotlib.pyplot as plt
        with tempfile.TemporaryDirectory() as tmp:
            try:
                d.draw(path=os.path.join(tmp, "d.png"), show=False)
                plt.close('all')
            except Exception as e:
                E.fail("C20:backend:matplotlib-raises", info=repr(e))
            try:
                d.draw(to_tikz=True, path=os.path.join(tmp, "d.tikz"))
            except Exception as e:
                E.fail("C20:backend:tikz-raises", info=repr(e))
        E.cover("rendered")
    E.cover("whole")


def spiders(E):
    """boxes drawn as spiders of different shapes and colours render"""
    import matplotlib
    matplotlib.use("Agg")
    import matplotlib.pyplot as plt
    from discopy.monoidal import Ty, Box, Id
    x = Ty('x')
    shapes = [E.choice('shape%d' % i, ['circle', 'rectangle', 'plus'])
              for i in range(2)]
    colors = [E.choice('color%d' % i, ['red', 'green']) for i in range(2)]
    a = Box('a', x, x @ x, draw_as_spider=True, shape=shapes[0],
            color=colors[0])
    b = Box('b', x @ x, x, draw_as_spider=True, shape=shapes[1],
            color=colors[1])
    plain = Box('p', x, x)
    d = a >> Id(x) @ plain >> b
    with tempfile.TemporaryDirectory() as tmp:
        try:
            d.draw(path=os.path.join(tmp, "d.png"), show=False)
            plt.close('all')
        except Exception as e:
            E.fail("C20:backend:matplotlib-raises:spiders", info=repr(e))
        try:
            d.draw(to_tikz=True, path=os.path.join(tmp, "d.tikz"))
        except Exception as e:
            E.fail("C20:backend:tikz-raises:spiders", info=repr(e))
    E.cover("spiders")


def programs(E, k, w):
    """diagramize: a function body using its wires in planar order yields
    the diagram with the wiring the body describes"""
    from discopy import monoidal
    from discopy.monoidal import Ty, Box, Id
    from discopy.drawing import diagramize
    from discopy.cartesian import tuplify
    x = Ty('x')
    sig = [Box('copy', x, x @ x), Box('merge', x @ x, x), Box('del', x, Ty()),
           Box('new', Ty(), x), Box('h', x, x), Box('scalar', Ty(), Ty())]
    n = E.choice('n', range(1, w + 1))
    dom = x ** n
    width = n
    steps = []
    for i in range(k):
        bi = E.choice('box%d' % i, range(len(sig)))
        b = sig[bi]
        if width - len(b.dom) + len(b.cod) > w + 1 or len(b.dom) > width:
            raise Abort()
        p = E.choice('pos%d' % i, range(width - len(b.dom) + 1))
        steps.append((b, p))
        width += len(b.cod) - len(b.dom)
    cod = x ** width
    expected = Id(dom)
    for b, p in steps:
        c = expected.cod
        expected = expected >> Id(c[:p]) @ b @ Id(c[p + len(b.dom):])

    def body(*inputs):
        scan = list(inputs)
        for b, p in steps:
            m = len(b.dom)
            outs = b(*scan[p:p + m], offset=p) if m == 0 \
                else b(*scan[p:p + m])
            scan[p:p + m] = list(tuplify(outs)) if len(b.cod) else []
        return tuple(scan) if len(scan) != 1 else scan[0]
    if width == 0:
        raise Abort()       # a function must return at least one wire
    got = diagramize(dom, cod, sig)(body)
    E.check(got == expected, "C20:diagramize:wrong-wiring",
            info="got %s expected %s" % (got, expected))
    E.cover("program")


def harnesses(tier):
    q = tier == "quick"
    T = 600 if q else 900
    S, PA, QA = (3, 2, 2) if q else (5, 3, 3)
    k, w, a = (2, 3, 2) if q else (3, 3, 2)
    return [
        H("layout_step", layout_step, dict(S=S, PA=PA, QA=QA), FUNCS,
          covers=["step"], engine="DSE with real-valued coordinates (z3 LRA) "
          "on the make_space/add_box closures extracted from the current "
          "source of diagram2nx", bounds="a scan of <= %d open wires at "
          "arbitrary strictly increasing real x, 2 arbitrary history nodes, "
          "a box with <= %d inputs and <= %d outputs at every offset"
          % (S, PA, QA), outside="wider scans; bubbles",
          stubs=["free variables of the extracted closures (pos, graph, "
                 "diagram, Node) supplied by the harness"], timeout_s=T),
        H("whole", whole, dict(k=k, w=w, a=a, backends=True), FUNCS,
          covers=["whole", "rendered"], engine="DSE choices (shapes "
          "enumerated) on the whole diagram2nx; back-ends executed (Agg, "
          "TikZ to a temp file)", bounds="diagrams of %d boxes, width <= %d, "
          "arity <= %d incl. scalars, states and effects" % (k, w, a),
          outside="pixel-level rendering; quantum drawing helpers; "
          "pregroup.draw; equation; to_gif", timeout_s=T),
        H("spiders", spiders, {}, FUNCS, covers=["spiders"],
          engine="DSE choices; back-ends executed",
          bounds="two spider-drawn boxes with shapes from {circle, rectangle, "
          "plus} and colours from {red, green} around a plain box",
          timeout_s=T),
        H("programs", programs, dict(k=2 if q else 4, w=3), FUNCS,
          covers=["program"], engine="DSE choices (straight-line programs "
          "enumerated)", bounds="bodies of %d applications over {copy 1->2, "
          "merge 2->1, del 1->0, new 0->1, h 1->1, scalar 0->0} on <= 3 input wires, wires "
          "used in planar order" % (2 if q else 4), timeout_s=T)]
