"""C09 - evaluating a diagram computes its compositional meaning."""
import numpy as np

from vf.runner import H
from vf.engine import Abort
from vf import sym
from vf.props.c08 import matmul, eye, kron, perm_matrix
from vf.props.c11 import conj_T

FUNCS = ["discopy.tensor.Functor.__call__", "discopy.tensor.Diagram.eval",
         "discopy.tensor.Sum.eval", "discopy.tensor.Spider.__init__",
         "discopy.tensor.Tensor.map", "discopy.tensor.Tensor.dagger",
         "discopy.tensor.Tensor.cups", "discopy.tensor.Tensor.caps",
         "discopy.tensor.Tensor.id", "discopy.tensor.Box.array",
         "discopy.rigid.Functor.__call__", "discopy.monoidal.Functor.__call__"]


def prod(xs):
    n = 1
    for x in xs:
        n *= x
    return n


class Interp:
    """reference semantics, built from the defining tensors only"""

    def __init__(self, dims, arrays):
        self.dims, self.arrays = dims, arrays     # name -> int, box name -> arr

    def ty(self, t):
        return tuple(d for d in (self.dims[o.name] for o in t.objects)
                     if d != 1)

    def box(self, b):
        from discopy import rigid, monoidal, tensor, cat
        if isinstance(b, monoidal.Swap):
            return perm_matrix(self.ty(b.left), self.ty(b.right))
        if isinstance(b, rigid.Cup):
            d = prod(self.ty(b.left))
            m = np.zeros((d * d, 1), dtype=object)
            for i in range(d):
                m[i * d + i, 0] = 1
            return m
        if isinstance(b, rigid.Cap):
            d = prod(self.ty(b.left))
            m = np.zeros((1, d * d), dtype=object)
            for i in range(d):
                m[0, i * d + i] = 1
            return m
        if getattr(b, 'is_dagger', False):
            return conj_T(self.box(b.dagger()))
        arr = self.arrays[b.name]
        return np.asarray(arr, dtype=object).reshape(
            prod(self.ty(b.dom)), prod(self.ty(b.cod)))

    def diagram(self, d):
        M = eye(prod(self.ty(d.dom)))
        scan = d.dom
        for box, off in zip(d.boxes, d.offsets):
            left, right = scan[:off], scan[off + len(box.dom):]
            L = kron(kron(eye(prod(self.ty(left))), self.box(box)),
                     eye(prod(self.ty(right))))
            M = matmul(M, L)
            scan = left @ box.cod @ right
        return M


ALPHA = [('x', 0), ('y', 0), ('x', 1), ('x', -1)]


def gen_rigid(E, k, w, boxes_out, allow=('box', 'dagger', 'swap', 'cap',
                                         'cup')):
    """solver-shaped rigid diagram with structural boxes"""
    from discopy import rigid
    Ty, Ob, Id = rigid.Ty, rigid.Ob, rigid.Id
    n = E.choice('dom_w', range(0, min(w, 2) + 1))
    dom = Ty(*[Ob(*E.choice('dom_%d' % i, ALPHA[:2])) for i in range(n)])
    d = Id(dom)
    CODS = [Ty(), Ty('x'), Ty('x', 'y')]
    for i in range(k):
        scan = d.cod
        opts = []
        if 'box' in allow:
            opts.append('box')
        if 'dagger' in allow and boxes_out:
            opts.append('dagger')
        if 'swap' in allow and len(scan) >= 2:
            opts.append('swap')
        if 'cap' in allow and len(scan) + 2 <= w:
            opts.append('cap')
        if 'cup' in allow and any(
                scan[j:j + 1].r == scan[j + 1:j + 2]
                for j in range(len(scan) - 1)):
            opts.append('cup')
        kind = E.choice('kind%d' % i, opts)
        if kind == 'box':
            da = E.choice('da%d' % i, range(0, min(2, len(scan)) + 1))
            off = E.choice('off%d' % i, range(0, len(scan) - da + 1))
            cod = E.choice('cod%d' % i, CODS)
            if len(scan) - da + len(cod) > w:
                raise Abort()
            b = rigid.Box('f%d' % i, scan[off:off + da], cod)
            boxes_out.append(b)
        elif kind == 'dagger':
            f = E.choice('which%d' % i, boxes_out)
            offs = [j for j in range(len(scan) - len(f.cod) + 1)
                    if scan[j:j + len(f.cod)] == f.cod]
            if not offs or len(scan) - len(f.cod) + len(f.dom) > w:
                raise Abort()
            off = E.choice('off%d' % i, offs)
            b = f.dagger()
        elif kind == 'swap':
            off = E.choice('off%d' % i, range(len(scan) - 1))
            b = rigid.Swap(scan[off:off + 1], scan[off + 1:off + 2])
        elif kind == 'cap':
            off = E.choice('off%d' % i, range(len(scan) + 1))
            l, r = E.choice('pair%d' % i, [
                (Ty('x'), Ty('x').l), (Ty('y').r, Ty('y'))])
            b = rigid.Cap(l, r)
        else:
            offs = [j for j in range(len(scan) - 1)
                    if scan[j:j + 1].r == scan[j + 1:j + 2]]
            off = E.choice('off%d' % i, offs)
            b = rigid.Cup(scan[off:off + 1], scan[off + 1:off + 2])
        d = d >> Id(scan[:off]) @ b @ Id(scan[off + len(b.dom):])
    return d


def make_functor(E, dims, boxes, arrays, style, arstyle):
    """object map given as ints or Dims, dict or callable"""
    from discopy import tensor, rigid
    from discopy.tensor import Dim
    if style == 'dict-int':
        ob = {rigid.Ty(n): v for n, v in dims.items()}
    elif style == 'dict-dim':
        ob = {rigid.Ty(n): Dim(v) for n, v in dims.items()}
    else:
        ob = lambda t: Dim(dims[t[0].name])
    if arstyle == 'dict':
        ar = {b: arrays[b.name] for b in boxes}
    else:
        ar = lambda f: arrays[f.name]
    return tensor.Functor(ob, ar)


def functor(E, k, w, dimsets, cap, allow=None):
    from discopy.tensor import Dim
    sym.begin(E)
    boxes = []
    d = gen_rigid(E, k, w, boxes, allow) if allow else gen_rigid(
        E, k, w, boxes)
    dims = dict(zip('xy', E.choice('dims', dimsets)))
    I = Interp(dims, {})
    arrays = {}
    for b in boxes:
        shape = I.ty(b.dom) + I.ty(b.cod)
        if prod(shape) > cap:
            raise Abort()
        arrays[b.name] = sym.carr(E, b.name, shape)
    I.arrays = arrays
    # size guard on intermediate types
    scan = d.dom
    for box, off in zip(d.boxes, d.offsets):
        scan2 = scan[:off] @ box.cod @ scan[off + len(box.dom):]
        if prod(I.ty(d.dom)) * max(prod(I.ty(scan)), prod(I.ty(scan2))) > cap * 6:
            raise Abort()
        scan = scan2
    ref = I.diagram(d)
    # the functor applied to each box on its own has the image types
    F0 = make_functor(E, dims, boxes, arrays, 'dict-int', 'callable')
    for b in d.boxes:
        Fb = F0(b)
        E.check(Fb.dom == Dim(*I.ty(b.dom)) and Fb.cod == Dim(*I.ty(b.cod)),
                "C09:functor:box-image-dom-cod", info=repr(b))
    # two of the six (object map, box map) styles per shape, rotating
    combos = [(o, a) for o in ('dict-int', 'callable-dim', 'dict-dim')
              for a in ('callable', 'dict')]
    h = len(d.boxes) + sum(d.offsets) + len(d.dom) + sum(
        len(b.cod) + 2 * len(b.dom) for b in d.boxes)
    for style, arstyle in (combos[h % 6], combos[(h + 3) % 6]):
        F = make_functor(E, dims, boxes, arrays, style, arstyle)
        r = F(d)
        E.check(r.dom == Dim(*I.ty(d.dom)) and r.cod == Dim(*I.ty(d.cod)),
                "C09:functor:dom-cod")
        got = np.asarray(r.array, dtype=object).reshape(ref.shape)
        sym.prove_equal(E, got, ref, "C09:functor:not-layer-composite")
        E.cover(style)
        E.cover('ar-' + arstyle)
    # invariance under interchange / normalisation
    try:
        nf = d.normal_form()
        sym.prove_equal(E, np.asarray(F(nf).array, dtype=object).reshape(
            ref.shape), ref, "C09:functor:normal-form-changes-evaluation")
        E.cover("normal_form")
    except NotImplementedError:
        E.cover("nf-refused")
    E.cover("functor")


def special(E):
    """spiders, bubbles, sums, tensor.Diagram.eval"""
    import sympy
    from discopy import tensor
    from discopy.tensor import Dim, Tensor
    sym.begin(E)
    kind = E.choice('kind', ['spider', 'bubble', 'bubble-numeric', 'sum',
                             'eval'])
    idF = tensor.Functor(ob=lambda x: x, ar=lambda f: f.array)
    if kind == 'spider':
        m, n = E.choice('m', [0, 1, 2]), E.choice('n', [0, 1, 2])
        dim = E.choice('dim', [1, 2, 3])
        s = tensor.Diagram.spiders(m, n, Dim(dim)) if dim == 1 \
            else tensor.Spider(m, n, Dim(dim))
        got = s.eval().array
        ref = np.zeros((dim,) * (m + n) or (1,), dtype=object)
        for i in range(dim):
            ref[(i,) * (m + n) or (0,)] = 1
        if dim == 1:
            ref = np.ones((1,), dtype=object)
        sym.prove_equal(E, got, ref, "C09:spider")
    elif kind == 'bubble':
        a = sym.carr(E, 'A', (2, 2))
        b = sym.carr(E, 'B', (2, 2))
        f = tensor.Box('f', Dim(2), Dim(2), a)
        g = tensor.Box('g', Dim(2), Dim(2), b)
        fn = E.choice('fn', [lambda x: x * x, lambda x: 2 * x + 1,
                             lambda x: x * x * x - x])
        d = (f >> g).bubble(func=fn) >> g
        inner = matmul(np.asarray(a, dtype=object), np.asarray(b, dtype=object))
        mapped = np.empty((2, 2), dtype=object)
        for i in range(2):
            for j in range(2):
                mapped[i, j] = fn(inner[i, j])
        ref = matmul(mapped, np.asarray(b, dtype=object))
        sym.prove_equal(E, d.eval().array, ref, "C09:bubble")
        sym.prove_equal(E, idF(d).array, ref, "C09:bubble:identity-functor")
    elif kind == 'bubble-numeric':
        # concrete entries of mixed magnitude, function with mixed result
        # types (ints and floats): realised at numpy, compared numerically
        vals = E.choice('vals', [[1, 2, 3, 0], [0, 1, 2, 5], [2, 0, 0, 1]])
        f = tensor.Box('f', Dim(2), Dim(2), vals)
        fn = lambda x: x * x if x < 2 else x + 0.5
        d = f.bubble(func=fn)
        ref = np.array([fn(v) for v in vals], dtype=float)
        got = np.asarray(d.eval().array, dtype=float).flatten()
        E.check(bool(np.allclose(got, ref)), "C09:bubble:numeric",
                info="%s vs %s" % (got, ref))
    elif kind == 'sum':
        a = sym.carr(E, 'A', (2, 3))
        b = sym.carr(E, 'B', (2, 3))
        c = sym.carr(E, 'C', (3, 2))
        f = tensor.Box('f', Dim(2), Dim(3), a)
        g = tensor.Box('g', Dim(2), Dim(3), b)
        h = tensor.Box('h', Dim(3), Dim(2), c)
        d = (f + g) >> h
        ref = matmul(np.asarray(a, dtype=object) + np.asarray(b, dtype=object),
                     np.asarray(c, dtype=object))
        sym.prove_equal(E, idF(d).array, ref, "C09:sum:identity-functor")
        sym.prove_equal(E, (f + g).eval().array,
                        np.asarray(a, dtype=object)
                        + np.asarray(b, dtype=object), "C09:sum:eval")
        z = tensor.Sum([], Dim(2), Dim(3))
        sym.prove_equal(E, idF(z).array, np.zeros((2, 3), dtype=object),
                        "C09:sum:empty")
    else:
        a = sym.carr(E, 'A', (2, 3, 2))
        b = sym.carr(E, 'B', (3, 2))
        f = tensor.Box('f', Dim(2), Dim(3, 2), a)
        g = tensor.Box('g', Dim(3), Dim(2), b)
        variant = E.choice('variant', ['plain', 'dagger', 'swap', 'cupcap'])
        if variant == 'plain':
            d = f >> g @ tensor.Id(Dim(2))
        elif variant == 'dagger':
            d = f >> g @ tensor.Id(Dim(2)) >> g.dagger() @ tensor.Id(Dim(2)) \
                >> f.dagger()
        elif variant == 'swap':
            d = f >> tensor.Diagram.swap(Dim(3), Dim(2)) \
                >> tensor.Id(Dim(2)) @ g
        else:
            d = tensor.Diagram.caps(Dim(2), Dim(2)) @ tensor.Id(Dim(2)) \
                >> tensor.Id(Dim(2)) @ tensor.Diagram.cups(Dim(2), Dim(2)) >> f
        sym.prove_equal(E, d.eval().array, idF(d).array,
                        "C09:eval-vs-identity-functor")
        # and against the layer-by-layer reference
        A = np.asarray(a, dtype=object).reshape(2, 6)
        B = np.asarray(b, dtype=object).reshape(3, 2)
        if variant == 'plain':
            ref = matmul(A, kron(B, eye(2)))
        elif variant == 'dagger':
            L = matmul(A, kron(B, eye(2)))
            ref = matmul(L, conj_T(L))
        elif variant == 'swap':
            ref = matmul(matmul(A, perm_matrix((3,), (2,))), kron(eye(2), B))
        else:
            ref = A
        sym.prove_equal(E, np.asarray(d.eval().array, dtype=object).reshape(
            ref.shape), ref, "C09:eval:not-layer-composite")
    E.cover(kind)


def harnesses(tier):
    q = tier == "quick"
    T = 600 if q else 900
    k, w, cap = (2, 3, 36) if q else (2, 4, 81)
    dimsets = [(2, 3), (3, 1)] if q else [(2, 3), (3, 1), (3, 2), (1, 2)]
    extra = [] if q else [
        H("functor_k3", functor,
          dict(k=3, w=3, dimsets=[(2, 2)], cap=64,
               allow=('box', 'swap', 'cap', 'cup')), FUNCS,
          covers=["functor"], engine="SYM (z3 QF_NRA) + DSE shapes",
          bounds="rigid diagrams of 3 layers from {box, swap, cap, cup}, "
          "width <= 3, dims (2, 2)", timeout_s=T)]
    return extra + [
        H("functor", functor, dict(k=k, w=w, dimsets=dimsets, cap=cap), FUNCS,
          covers=["functor", "normal_form", "dict-int", "callable-dim",
                  "dict-dim", "ar-dict", "ar-callable"], engine="SYM (z3 QF_NRA) + DSE "
          "shapes", bounds="rigid diagrams of %d layers from {box (arity <= 2)"
          ", daggered box, swap, cap, cup}, width <= %d, dims (x, y) in %s, "
          "generic symbolic box arrays (size cap %d), object map as "
          "dict-of-int / dict-of-Dim / callable, box map dict / callable"
          % (k, w, dimsets, cap), outside="contractor= (tensornetwork), jax",
          timeout_s=T),
        H("special", special, {}, FUNCS,
          covers=['spider', 'bubble', 'bubble-numeric', 'sum', 'eval'],
          engine="SYM (z3 QF_NRA)", bounds="spiders of arity <= 2+2 and dim "
          "<= 3; one-level bubbles with 3 polynomial functions; sums of 2; "
          "4 tensor.Diagram.eval layouts; one numeric bubble case",
          outside="non-polynomial bubble functions symbolically",
          timeout_s=T)]
