"""C14 - substituting parameters commutes with evaluation."""
import numpy as np

from vf.runner import H
from vf.engine import Abort
from vf import sym, zxref

FUNCS = ["discopy.cat.rsubs", "discopy.cat.Box.subs", "discopy.cat.Box.lambdify",
         "discopy.cat.Arrow.free_symbols", "discopy.cat.Box.__init__",
         "discopy.monoidal.Diagram.subs", "discopy.monoidal.Diagram.lambdify",
         "discopy.quantum.gates.Parametrized.subs",
         "discopy.quantum.gates.Parametrized.lambdify",
         "discopy.quantum.gates.Parametrized.modules",
         "discopy.quantum.gates.Parametrized.__init__",
         "discopy.quantum.gates.ClassicalGate.subs",
         "discopy.quantum.gates.ClassicalGate.lambdify",
         "discopy.quantum.zx.Spider.subs", "discopy.quantum.zx.Scalar.subs",
         "discopy.tensor.Tensor.subs", "discopy.tensor.Tensor.lambdify",
         "discopy.tensor.Tensor.map"]


def entry_subs(arr, *args):
    """reference: substitution applied entrywise to an evaluated array"""
    import sympy
    out = np.empty(len(arr), dtype=object)
    for i, x in enumerate(arr):
        out[i] = sympy.sympify(x).subs(*args)
    return out


def numeric_equal(E, lhs, rhs, key, syms, info=None):
    """numeric cross-check (float substitutions leave no symbolic content to
    quantify exactly): both sides evaluated at two fixed points"""
    import sympy
    ok = True
    for pt in (0.3, -1.1):
        sub = {s: pt * (i + 1) for i, s in enumerate(syms)}
        a = [complex(sympy.N(sympy.sympify(v).subs(sub))) for v in lhs]
        b = [complex(sympy.N(sympy.sympify(v).subs(sub))) for v in rhs]
        ok = ok and len(a) == len(b) and bool(np.allclose(a, b, atol=1e-9))
    E.check(ok, key, info=info)


def flat(t):
    return list(np.asarray(t.array, dtype=object).flatten())


def data_symbols(d):
    """oracle for free_symbols: sympy's own, over the data of every box"""
    import sympy
    out = set()
    for b in d.boxes:
        data = b.data
        items = list(np.asarray(data, dtype=object).flatten()) \
            if data is not None else []
        for it in items:
            if isinstance(it, sympy.Basic):
                out |= it.free_symbols
    return out


def structure(d):
    return [(type(b).__name__, str(b.dom), str(b.cod),
             bool(getattr(b, 'is_dagger', False)),
             bool(getattr(b, 'is_mixed', False))) for b in d.boxes], \
        list(d.offsets), str(d.dom), str(d.cod)


def exprs(E, x, y):
    import sympy
    R = sympy.Rational
    return E.choice('expr', [x, 2 * x + y, x / 2 - y + R(1, 4), x * y,
                             -x, y])


def build_circuit(E, x, y, layers):
    import sympy
    from discopy.quantum import gates as G
    from discopy.quantum.circuit import Id
    n = 2
    # |++>: every basis state has an amplitude (diagonal and controlled
    # gates act non-trivially)
    c = G.Ket(0, 0) >> G.H @ G.H
    for l in range(layers):
        kind = E.choice('kind%d' % l, ['Rx', 'Rz', 'Ry', 'CRz', 'CRx', 'CU1',
                                       'scalar', 'mixedscalar', 'sqrt', 'H',
                                       'Rx.dagger'])
        ex = exprs_l(E, x, y, l)
        if kind in ('Rx', 'Rz', 'Ry', 'CRz', 'CRx', 'CU1'):
            g = getattr(G, kind)(ex)
        elif kind == 'Rx.dagger':
            g = G.Rx(ex).dagger()
        elif kind == 'scalar':
            g = G.scalar(ex + sympy.I * x)
        elif kind == 'mixedscalar':
            g = G.scalar(ex * ex + 1, is_mixed=True)
        elif kind == 'sqrt':
            g = G.sqrt(ex * ex + 1)
        else:
            g = G.H
        k = len(g.dom)
        off = E.choice('off%d' % l, range(n - k + 1))
        c = c >> Id(off) @ g @ Id(n - off - k)
    return c


def exprs_l(E, x, y, l):
    import sympy
    R = sympy.Rational
    opts = [x, 2 * x + y, x / 2 - y + R(1, 4), x * y]
    return E.choice('expr%d' % l, opts if l == 0 else opts[:2])


def circuits(E, layers):
    import sympy
    sym.begin(E)
    x, y = sym.sym(E, 'x'), sym.sym(E, 'y')
    u = sym.sym(E, 'u')
    c = build_circuit(E, x, y, layers)
    mixed = c.is_mixed
    how = E.choice('how', ['symbol', 'expr', 'other-param', 'pairs',
                           'number', 'rational', 'constant'])
    if how == 'symbol':
        args = (x, u)
    elif how == 'expr':
        args = (x, 2 * u + 1)
    elif how == 'other-param':
        args = (x, y)
    elif how == 'pairs':
        args = ([(x, u), (y, u + 1)],)
    elif how == 'number':
        args = (x, 0.375)
    elif how == 'constant':
        args = (x, sympy.sqrt(2) / 2)    # a sympy constant, not a Number
    else:
        args = (x, sympy.Rational(3, 8))
    before = structure(c)
    s = c.subs(*args)
    E.check(structure(s) == before, "C14:circuit:subs-changes-structure",
            info="%s -> %s" % (before[0], structure(s)[0]))
    lhs = flat(s.eval(mixed=mixed))
    if how == 'number':
        rhs = entry_subs(flat(c.eval(mixed=mixed)), x, sympy.Rational(3, 8))
    else:
        rhs = entry_subs(flat(c.eval(mixed=mixed)), *args)
    lib = flat(c.eval(mixed=mixed).subs(*args))
    if how in ('number', 'rational', 'constant'):
        numeric_equal(E, lhs, rhs, "C14:circuit:subs-then-eval", [y, u], how)
        numeric_equal(E, lib, rhs, "C14:tensor-subs:not-entrywise", [y, u])
    else:
        sym.prove_equal(E, lhs, rhs, "C14:circuit:subs-then-eval", info=how)
        # the library's own evaluate-then-substitute
        sym.prove_equal(E, lib, rhs, "C14:tensor-subs:not-entrywise",
                        info=how)
    # free symbols
    E.check(c.free_symbols == data_symbols(c), "C14:free_symbols:wrong")
    E.check(s.free_symbols == data_symbols(s),
            "C14:free_symbols:wrong-after-subs")
    # substituting everything
    full = c.subs([(x, 0.25), (y, 0.5)])
    E.check(not full.free_symbols, "C14:free_symbols:not-empty-after-all")
    arr = np.asarray(full.eval(mixed=mixed).array, dtype=object).flatten()
    E.check(not any(isinstance(v, sympy.Basic) and v.free_symbols
                    for v in arr), "C14:eval:symbols-left")
    ref = entry_subs(flat(c.eval(mixed=mixed)), [
        (x, sympy.Rational(1, 4)), (y, sympy.Rational(1, 2))])
    numeric_equal(E, list(arr), ref, "C14:circuit:subs-numbers-then-eval", [])
    # lambdify agrees with subs
    lam = c.lambdify(x, y)(u, u + 1)
    sub = c.subs([(x, u), (y, u + 1)])
    E.check(structure(lam) == structure(sub),
            "C14:circuit:lambdify-structure", info="%s vs %s" % (
                structure(lam)[0], structure(sub)[0]))
    sym.prove_equal(E, flat(lam.eval(mixed=mixed)), flat(sub.eval(mixed=mixed)),
                    "C14:circuit:lambdify-vs-subs")
    num = c.lambdify(x, y)(0.25, 0.5)
    numeric_equal(E, flat(num.eval(mixed=mixed)), ref,
                  "C14:circuit:lambdify-numbers", [])
    E.cover(how)
    E.cover("mixed" if mixed else "pure")


def tensors(E):
    import sympy
    from discopy import tensor
    from discopy.tensor import Dim
    sym.begin(E)
    x, y, u = sym.sym(E, 'x'), sym.sym(E, 'y'), sym.sym(E, 'u')
    data1 = E.choice('d1', [[x, 1, 0, x * y], [x + y, 2, 3, 4],
                            [1, 2, 3, 4], [x ** 2, y, x - y, 0.5],
                            [1, 0, 0, x]])
    data2 = E.choice('d2', [[y, x], [1, 2 * x]])
    f = tensor.Box('f', Dim(2), Dim(2), data1)
    g = tensor.Box('g', Dim(2), Dim(1), data2)
    d = E.choice('shape', [f >> g, f @ f >> tensor.Id(Dim(2)) @ g,
                           f >> f.dagger() >> g, tensor.Id(Dim(2)) >> f])
    how = E.choice('how', ['symbol', 'pairs', 'number', 'float'])
    args = {'symbol': (x, u + 1), 'pairs': ([(x, u), (y, 2)],),
            'number': (x, 3), 'float': (x, 0.5)}[how]
    s = d.subs(*args)
    E.check(structure(s) == structure(d), "C14:tensor:subs-changes-structure")
    rhs = entry_subs(flat(d.eval()), *args)
    sym.prove_equal(E, flat(s.eval()), rhs, "C14:tensor:subs-then-eval")
    sym.prove_equal(E, flat(d.eval().subs(*args)), rhs,
                    "C14:tensor-subs:not-entrywise")
    E.check(d.free_symbols == data_symbols(d), "C14:free_symbols:wrong")
    E.check(s.free_symbols == data_symbols(s),
            "C14:free_symbols:wrong-after-subs")
    full = d.subs([(x, 2), (y, 3)])
    E.check(not full.free_symbols, "C14:free_symbols:not-empty-after-all")
    lam = d.lambdify(x, y)(u, 2)
    sym.prove_equal(E, flat(lam.eval()), entry_subs(flat(d.eval()),
                                                    [(x, u), (y, 2)]),
                    "C14:tensor:lambdify-vs-subs")
    t = d.eval()
    sym.prove_equal(E, flat(t.lambdify(x, y)(2, 3)),
                    entry_subs(flat(t), [(x, 2), (y, 3)]),
                    "C14:tensor:Tensor.lambdify")
    E.cover(how)


def zxs(E):
    import sympy
    from discopy.quantum import zx
    sym.begin(E)
    x, y, u = sym.sym(E, 'x'), sym.sym(E, 'y'), sym.sym(E, 'u')
    d = E.choice('diagram', [
        zx.Z(1, 2, x) >> zx.Id(1) @ zx.X(1, 1, y),
        zx.scalar(x + sympy.I * y) @ zx.Z(1, 1, x + y) >> zx.H,
        zx.X(0, 2, 2 * x) >> zx.SWAP >> zx.Z(2, 1, y / 2),
        zx.Z(1, 1, x).dagger() @ zx.scalar(y)])
    how = E.choice('how', ['symbol', 'pairs', 'number'])
    args = {'symbol': (x, u + 1), 'pairs': ([(x, u), (y, u / 2)],),
            'number': (x, sympy.Rational(1, 4))}[how]
    s = d.subs(*args)
    E.check(structure(s) == structure(d), "C14:zx:subs-changes-structure")
    rhs = entry_subs(flat(zxref.interpret(d)), *args)
    sym.prove_equal(E, flat(zxref.interpret(s)), rhs, "C14:zx:subs-then-eval")
    E.check(d.free_symbols == data_symbols(d), "C14:free_symbols:wrong")
    full = d.subs([(x, 0.25), (y, 0.5)])
    E.check(not full.free_symbols, "C14:free_symbols:not-empty-after-all")
    try:
        lam = d.lambdify(x, y)(u, u / 2)
    except TypeError as e:
        E.check("unexpected keyword argument" not in str(e),
                "C14:zx:lambdify-unsupported", info=str(e))
        raise
    sub = d.subs([(x, u), (y, u / 2)])
    E.check(structure(lam) == structure(sub), "C14:zx:lambdify-structure")
    sym.prove_equal(E, flat(zxref.interpret(lam)), flat(zxref.interpret(sub)),
                    "C14:zx:lambdify-vs-subs")
    E.cover(how)


def classical(E):
    """ClassicalGate with symbolic entries (stochastic maps)"""
    import sympy
    from discopy.quantum import gates as G
    sym.begin(E)
    x, u = sym.sym(E, 'x'), sym.sym(E, 'u')
    g = G.ClassicalGate('g', 1, 1, [x, 1 - x, 1 - x, x])
    dag = E.choice('dag', [False, True])
    box = g.dagger() if dag else g
    c = G.Bits(0) >> box
    s = c.subs(x, u / 2)
    E.check(structure(s) == structure(c), "C14:classical:subs-changes-structure",
            info="%s vs %s" % (structure(s)[0], structure(c)[0]))
    rhs = entry_subs(flat(c.eval()), x, u / 2)
    sym.prove_equal(E, flat(s.eval()), rhs, "C14:classical:subs-then-eval")
    lam = c.lambdify(x)(u / 2)
    E.check(structure(lam) == structure(c), "C14:classical:lambdify-structure")
    sym.prove_equal(E, flat(lam.eval()), rhs, "C14:classical:lambdify")
    E.cover("dagger" if dag else "plain")


def harnesses(tier):
    q = tier == "quick"
    T = 600 if q else 1500
    return [
        H("circuits", circuits, dict(layers=1 if q else 2), FUNCS,
          covers=['symbol', 'expr', 'other-param', 'pairs', 'number',
                  'rational', 'constant', 'pure', 'mixed'],
          engine="SYM (z3 QF_NRA, circle pairs)",
          bounds="Ket(0,0) then %d layer(s) from {Rx,Rz,Ry,CRz,CRx,CU1,"
          "Rx.dagger, scalar, mixed scalar, sqrt, H} with phases in "
          "{x, 2x+y, x/2-y+1/4, xy}; substitutions: fresh symbol, expression, "
          "other parameter, list of pairs, float, rational"
          % (1 if q else 2), outside="non-polynomial phase expressions",
          timeout_s=T, solver_timeout_ms=120000),
        H("tensors", tensors, {}, FUNCS,
          covers=['symbol', 'pairs', 'number', 'float'],
          engine="SYM (z3 QF_NRA)", bounds="4 tensor diagram shapes x 5x2 box "
          "data with polynomial entries in x, y (mixed with plain numbers)",
          timeout_s=T),
        H("zxs", zxs, {}, FUNCS, covers=['symbol', 'pairs', 'number'],
          engine="SYM (z3 QF_NRA)", bounds="4 ZX diagrams with spider phases "
          "and scalars affine in x, y", timeout_s=T),
        H("classical", classical, {}, FUNCS, covers=['plain', 'dagger'],
          engine="SYM (z3 QF_NRA)", bounds="one symbolic stochastic gate, "
          "plain and daggered", timeout_s=T)]
