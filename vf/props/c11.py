"""C11 - pure circuits evaluate to the unitary they describe."""
import itertools

import numpy as np

from vf.runner import H
from vf.engine import Abort
from vf import sym
from vf.props.c08 import matmul, eye

FUNCS = ["discopy.quantum.gates.Rx.array", "discopy.quantum.gates.Ry.array",
         "discopy.quantum.gates.Rz.array", "discopy.quantum.gates.CU1.array",
         "discopy.quantum.gates.CRz.array", "discopy.quantum.gates.CRx.array",
         "discopy.quantum.gates.Rotation.dagger",
         "discopy.quantum.gates.QuantumGate.dagger",
         "discopy.quantum.gates.Controlled.__init__",
         "discopy.quantum.gates.Controlled.dagger",
         "discopy.quantum.gates.Ket.dagger", "discopy.quantum.gates.Bra.dagger",
         "discopy.quantum.gates.Parametrized.modules",
         "discopy.quantum.gates.rewire", "discopy.quantum.circuit.Circuit.eval",
         "discopy.quantum.circuit.Circuit.permutation",
         "discopy.tensor.Functor.__call__", "discopy.tensor.Tensor.dagger"]


def ref_rotation(name, phi):
    """tket matrices, phase in full turns (tket half-turns = 2 * phi)"""
    import sympy
    c, s = sympy.cos(sympy.pi * phi), sympy.sin(sympy.pi * phi)
    em, ep = sympy.exp(-sympy.I * sympy.pi * phi), \
        sympy.exp(sympy.I * sympy.pi * phi)
    I = sympy.I
    if name == 'Rx':
        return [[c, -I * s], [-I * s, c]]
    if name == 'Ry':
        return [[c, -s], [s, c]]
    if name == 'Rz':
        return [[em, 0], [0, ep]]
    if name == 'CRz':
        return [[1, 0, 0, 0], [0, 1, 0, 0], [0, 0, em, 0], [0, 0, 0, ep]]
    if name == 'CRx':
        return [[1, 0, 0, 0], [0, 1, 0, 0], [0, 0, c, -I * s],
                [0, 0, -I * s, c]]
    if name == 'CU1':
        return [[1, 0, 0, 0], [0, 1, 0, 0], [0, 0, 1, 0],
                [0, 0, 0, sympy.exp(2 * sympy.I * sympy.pi * phi)]]
    raise ValueError(name)


def validate_reference(E):
    """the reference formulas agree with pytket at concrete points"""
    import sympy
    from pytket.circuit import Op, OpType
    x = sympy.Symbol('x', real=True)
    for name in ('Rx', 'Ry', 'Rz', 'CRz', 'CRx', 'CU1'):
        for v in (0.3, -0.8, 1.7):
            ref = np.array(sympy.Matrix(ref_rotation(name, x)).subs(x, v)
                           .evalf(), dtype=complex)
            tk = Op.create(getattr(OpType, name), [2 * v]).get_unitary()
            if not np.allclose(ref, tk, atol=1e-9):
                raise RuntimeError("reference %s disagrees with pytket" % name)


def gate(name, phi):
    from discopy.quantum import gates
    return getattr(gates, name)(phi)


def full_matrix(n, placed):
    """reference: ordered product of gates placed on an n-qubit register.
    placed = list of (matrix indexed [in, out] over m qubits, tuple of the
    qubits it acts on, in the order of its own indices).  Built directly
    from the definition (delta on the untouched qubits)."""
    N = 2 ** n
    total = eye(N)
    for G, qs in placed:
        m = len(qs)
        full = np.zeros((N, N), dtype=object)
        for i in range(N):
            ib = [(i >> (n - 1 - t)) & 1 for t in range(n)]
            for o in range(N):
                ob = [(o >> (n - 1 - t)) & 1 for t in range(n)]
                if any(ib[t] != ob[t] for t in range(n) if t not in qs):
                    continue
                gi = sum(ib[q] << (m - 1 - t) for t, q in enumerate(qs))
                go = sum(ob[q] << (m - 1 - t) for t, q in enumerate(qs))
                full[i, o] = G[gi, go]
        total = matmul(total, full)
    return total


def conj_T(M):
    out = np.empty((M.shape[1], M.shape[0]), dtype=object)
    for i in range(M.shape[0]):
        for j in range(M.shape[1]):
            x = M[i, j]
            out[j, i] = x.conjugate() if hasattr(x, 'conjugate') else x
    return out


def sq(arr, n_in, n_out=None):
    n_out = n_in if n_out is None else n_out
    return np.asarray(arr, dtype=object).reshape(2 ** n_in, 2 ** n_out)


def table(E):
    """named rotations against the tket matrices, for all phases"""
    import sympy
    sym.begin(E)
    validate_reference(E)
    name = E.choice('gate', ['Rx', 'Ry', 'Rz', 'CRz', 'CRx', 'CU1'])
    form = E.choice('form', ['phi', '2*phi+1/4', '-phi/2'])
    phi = sym.sym(E, 'phi')
    expr = {'phi': phi, '2*phi+1/4': 2 * phi + sympy.Rational(1, 4),
            '-phi/2': -phi / 2}[form]
    g = gate(name, expr)
    n = len(g.dom)
    sym.prove_equal(E, sq(g.array, n), np.array(ref_rotation(name, expr),
                                                dtype=object),
                    "C11:table:%s" % name)
    sym.prove_equal(E, sq(g.eval().array, n),
                    np.array(ref_rotation(name, expr), dtype=object),
                    "C11:table-eval:%s" % name)
    # unitarity for all phases
    U = sq(g.eval().array, n)
    sym.prove_equal(E, matmul(U, conj_T(U)), eye(2 ** n),
                    "C11:unitary:%s" % name)
    # dagger
    sym.prove_equal(E, sq(g.dagger().eval().array, n), conj_T(U),
                    "C11:dagger:%s" % name)
    E.cover(name)


def constants(E):
    """constant gates, controlled gates, kets and bras (concrete: nothing to
    quantify, compared numerically with pytket / the definition)"""
    from discopy.quantum import gates as G
    from pytket.circuit import Op, OpType
    sym.begin(E)
    kind = E.choice('kind', ['named', 'controlled', 'ketbra'])
    if kind == 'named':
        nm = E.choice('g', ['H', 'S', 'T', 'X', 'Y', 'Z', 'CX', 'CZ', 'SWAP'])
        g = getattr(G, nm)
        tk = Op.create(getattr(OpType, nm)).get_unitary()
        n = len(g.dom)
        got = np.asarray(g.eval().array, dtype=complex).reshape(2 ** n, 2 ** n)
        E.check(bool(np.allclose(got, tk, atol=1e-9)), "C11:constant:%s" % nm)
        dag = np.asarray(g.dagger().eval().array, dtype=complex).reshape(
            2 ** n, 2 ** n)
        E.check(bool(np.allclose(dag, got.conj().T, atol=1e-9)),
                "C11:dagger:%s" % nm)
        dd = np.asarray(g.dagger().dagger().eval().array,
                        dtype=complex).reshape(2 ** n, 2 ** n)
        E.check(bool(np.allclose(dd, got, atol=1e-9)),
                "C11:dagger-dagger:%s" % nm)
    elif kind == 'controlled':
        tn = E.choice('t', ['X', 'Y', 'Z', 'H', 'S', 'T', 'Rz', 'Rx', 'Ry',
                            'Sdg', 'Tdg'])
        t = {'Rz': G.Rz(0.3), 'Rx': G.Rx(0.3), 'Ry': G.Ry(0.3),
             'Sdg': G.S.dagger(), 'Tdg': G.T.dagger()}.get(tn) \
            or getattr(G, tn)
        tm = np.asarray(t.eval().array, dtype=complex).reshape(2, 2)
        exp = np.zeros((4, 4), dtype=complex)
        exp[:2, :2] = np.eye(2)
        exp[2:, 2:] = tm
        c = G.Controlled(t)
        got = np.asarray(c.eval().array, dtype=complex).reshape(4, 4)
        E.check(bool(np.allclose(got, exp, atol=1e-9)),
                "C11:controlled:%s" % tn)
        dag = np.asarray(c.dagger().eval().array, dtype=complex).reshape(4, 4)
        E.check(bool(np.allclose(dag, exp.conj().T, atol=1e-9)),
                "C11:controlled-dagger:%s" % tn)
    else:
        n = E.choice('n', [0, 1, 2, 3])
        bits = [E.choice('b%d' % i, [0, 1]) for i in range(n)]
        idx = sum(b << (n - 1 - i) for i, b in enumerate(bits))
        vec = np.zeros(2 ** n)
        vec[idx] = 1          # leftmost qubit most significant
        k = np.asarray(G.Ket(*bits).eval().array, dtype=complex).reshape(-1)
        b = np.asarray(G.Bra(*bits).eval().array, dtype=complex).reshape(-1)
        E.check(bool(np.allclose(k, vec)) and bool(np.allclose(b, vec)),
                "C11:ketbra:basis-vector")
        E.check(G.Ket(*bits).dagger() == G.Bra(*bits)
                and G.Bra(*bits).dagger() == G.Ket(*bits),
                "C11:ketbra:dagger")
    E.cover(kind)


def kets_inside(E):
    """state preparations and post-selections in the middle of a circuit,
    to the left of wires that are used afterwards (numeric reference by
    Kronecker products per layer)"""
    from discopy.quantum import gates as G
    from discopy.quantum.circuit import Id
    sym.begin(E)
    pool = [G.Ket(0, 0) @ Id(2) >> Id(3) @ G.X,
            G.Ket(1) @ Id(2) >> Id(2) @ G.Y >> Id(1) @ G.CX,
            Id(1) @ G.Ket(0, 1) @ Id(1) >> Id(3) @ G.H >> G.CX @ Id(2),
            G.Ket(0, 1, 0) @ Id(1) >> Id(3) @ G.Rz(0.3) >> Id(2) @ G.CX,
            Id(2) @ G.Ket(1) >> G.H @ Id(2) >> G.Bra(0) @ Id(2) >> G.CX,
            G.Ket(0, 0) @ Id(2) >> Id(3) @ G.X >> G.Bra(0) @ Id(3)
            >> Id(2) @ G.Rx(0.2)]
    c = E.choice('circuit', pool)
    M = np.eye(2 ** len(c.dom), dtype=complex)
    scan = len(c.dom)
    for box, off in zip(c.boxes, c.offsets):
        B = np.asarray(box.array, dtype=complex).reshape(
            2 ** len(box.dom), 2 ** len(box.cod))
        L = np.kron(np.kron(np.eye(2 ** off), B),
                    np.eye(2 ** (scan - off - len(box.dom))))
        M = M @ L
        scan += len(box.cod) - len(box.dom)
    got = np.asarray(c.eval().array, dtype=complex).reshape(M.shape)
    E.check(bool(np.allclose(got, M, atol=1e-9)),
            "C11:circuit:kets-inside:not-ordered-product", info=str(c))
    dag = np.asarray(c.dagger().eval().array, dtype=complex).reshape(
        M.shape[1], M.shape[0])
    E.check(bool(np.allclose(dag, M.conj().T, atol=1e-9)),
            "C11:circuit:kets-inside:dagger", info=str(c))
    E.cover("kets-inside")


def circuits(E, n, m, named):
    """evaluation = ordered product of the embedded gates; dagger"""
    from discopy.quantum import gates as G
    from discopy.quantum.circuit import Id, qubit
    import sympy
    sym.begin(E)
    c = Id(n)
    placed = []
    for layer in range(m):
        if named:
            nm = E.choice('g%d' % layer, ['Rx', 'Rz', 'CRz', 'CU1', 'H',
                                          'CX', 'Ry', 'CRx'])
            if nm in ('H', 'CX'):
                g = getattr(G, nm)
                M = np.asarray(g.array, dtype=object).reshape(
                    2 ** len(g.dom), -1)
            else:
                phi = sym.sym(E, 'p%d' % layer)
                g = gate(nm, phi)
                M = np.array(ref_rotation(nm, phi), dtype=object)
        else:
            k = E.choice('k%d' % layer, [1, 2])
            if k > n:
                raise Abort()
            arr = sym.carr(E, 'G%d' % layer, (2,) * (2 * k))
            g = G.QuantumGate('G%d' % layer, k, arr)
            M = sq(arr, k)
        k = len(g.dom)
        if k > n:
            raise Abort()
        off = E.choice('off%d' % layer, range(n - k + 1))
        c = c >> Id(off) @ g @ Id(n - off - k)
        placed.append((M, tuple(range(off, off + k))))
    U = sq(c.eval().array, n)
    ref = full_matrix(n, placed)
    sym.prove_equal(E, U, ref, "C11:circuit:not-ordered-product")
    sym.prove_equal(E, sq(c.dagger().eval().array, n), conj_T(ref),
                    "C11:circuit:dagger")
    if named:
        sym.prove_equal(E, matmul(U, conj_T(U)), eye(2 ** n),
                        "C11:circuit:not-unitary")
    E.cover("circuit")


def rewires(E, nmax):
    from discopy.quantum import gates as G
    from discopy.quantum.circuit import qubit
    sym.begin(E)
    n = E.choice('n', range(1, nmax + 1))
    a = E.choice('a', range(0, n + 1))
    b = E.choice('b', range(0, n + 1))
    arr = sym.carr(E, 'op', (2, 2, 2, 2))
    op = G.QuantumGate('op', 2, arr)
    legal = a != b and n >= 2 and a < n and b < n
    try:
        r = G.rewire(op, a, b, dom=qubit ** n)
    except (ValueError, IndexError, NotImplementedError):
        E.cover("refused")
        E.check(not legal, "C11:rewire:refused-legal")
        return
    if not legal:
        # out-of-range targets are not covered by the property
        raise Abort()
    E.cover("adjacent" if abs(a - b) == 1 else "distant")
    E.check(r.dom == qubit ** n and r.cod == qubit ** n,
            "C11:rewire:dom-cod")
    ref = full_matrix(n, [(sq(arr, 2), (a, b))])
    sym.prove_equal(E, sq(r.eval().array, n), ref,
                    "C11:rewire:wrong-qubits")


def harnesses(tier):
    q = tier == "quick"
    T = 600 if q else 900
    hs = [H("table", table, {}, FUNCS,
            covers=['Rx', 'Ry', 'Rz', 'CRz', 'CRx', 'CU1'],
            engine="SYM (z3 QF_NRA, circle pairs)",
            bounds="each rotation gate with phase phi, 2*phi+1/4, -phi/2 for "
            "a real symbol phi; reference formulas validated against pytket "
            "Op.get_unitary at 3 points", outside="float (numpy) branch of "
            "Parametrized.modules except through replay", timeout_s=T),
          H("constants", constants, {}, FUNCS,
            covers=['named', 'controlled', 'ketbra'],
            engine="DSE choices + numeric comparison (constants: nothing to "
            "quantify)", bounds="H,S,T,X,Y,Z,CX,CZ,SWAP vs pytket; "
            "Controlled(g) for 11 targets incl. daggered ones; Ket/Bra up to "
            "3 bits", outside="Controlled with distance != 0 (raises "
            "NotImplementedError)", timeout_s=T)]
    for named in (False, True):
        n, m = (2, 2) if q else (3, 3)
        hs.append(H("circuits_%s" % ("named" if named else "generic"),
                    circuits, dict(n=n, m=m, named=named), FUNCS,
                    covers=["circuit"], engine="SYM (z3 QF_NRA)",
                    bounds="%d qubits, %d layers, each gate %s at every offset"
                    % (n, m, "a named rotation with its own phase symbol or "
                       "H/CX" if named else "a generic symbolic 1- or 2-qubit "
                       "matrix"), outside="more qubits / layers",
                    timeout_s=T, solver_timeout_ms=120000))
    hs.append(H("kets_inside", kets_inside, {}, FUNCS, covers=["kets-inside"],
                engine="numeric (no symbols): DSE choice of 6 fixed circuits",
                bounds="6 circuits with Ket/Bra in the middle, to the left of "
                "wires used afterwards (up to 4 wires)", timeout_s=T))
    hs.append(H("rewires", rewires, dict(nmax=4 if q else 5), FUNCS,
                covers=["refused", "adjacent", "distant"],
                engine="SYM (z3 QF_NRA)",
                bounds="generic symbolic 4x4 op, dom = qubit ** n, n <= %d, "
                "all (a, b) in [0, n]^2" % (4 if q else 5),
                outside="op with cod != dom", timeout_s=T))
    return hs
