"""C04 - functors are functorial."""
from vf.runner import H
from vf.engine import AND, Abort
from vf import gen, hook
from vf.oracles import welltyped, teq, same_value

FUNCS = ["discopy.cat.Functor.__call__", "discopy.cat.Functor.ob",
         "discopy.cat.Functor.ar", "discopy.cat.Quiver.__getitem__",
         "discopy.monoidal.Functor.__call__", "discopy.rigid.Functor.__call__",
         "discopy.rigid.cups", "discopy.rigid.caps",
         "discopy.monoidal.Diagram.swap"]


def eq_both(E, x, y, key, info=None):
    E.check(bool(x == y), key + ":lib-eq", info=info or "%s vs %s" % (x, y))
    if hasattr(x, 'offsets') and hasattr(y, 'offsets'):
        E.check(same_value(x, y), key + ":oracle", info=info)


def image_diagram(E, kit, name, dom, cod, tag):
    """an arbitrary well-typed image for a box: 0, 1 or 2 boxes"""
    n = E.choice(tag + '_n', [1, 2, 0])
    if n == 0:
        if not bool(dom == cod):
            raise Abort()
        return kit.Id(dom)
    if n == 1:
        return kit.Box('F' + name, dom, cod)
    mid = kit.Ty('m') if len(dom) else kit.Ty()
    return kit.Box('F' + name + '1', dom, mid) >> kit.Box('F' + name + '2',
                                                         mid, cod)


def monoidalF(E, cls, k, w, a, L):
    from discopy import monoidal, rigid, cat
    kit = {'monoidal': monoidal, 'rigid': rigid}[cls]
    hook.enable(True)
    try:
        Ls = L if cls == 'monoidal' else [rigid.Ob('a'), rigid.Ob('b')]
        d = gen.modea_diagram(E, 'a', k, w, a, Ls, kit)
        e = gen.modea_diagram(E, 'b', 1, 1, 1, Ls, kit, names=['g0'])
        # object map: each atomic label to a type of length 0, 1 or 2
        img = {}
        keys = list(range(L)) if cls == 'monoidal' else ['a', 'b']
        for j, lab in enumerate(keys):
            n = E.choice('img%s' % lab, [1, 0, 2] if j == 0 else [2, 1])
            img[lab] = kit.Ty(*['i%s_%d' % (lab, t) for t in range(n)])

        def ob_fn(t):
            nm = t[0].name
            return img[nm if isinstance(nm, str) else int(nm)]
        boxes = {}
        for b in d.boxes + e.boxes:
            boxes.setdefault(b.name, b)
        # both ways of giving the maps, alternating with the shape
        style = ['callable', 'dict'][(len(d.dom) + sum(d.offsets)
                                      + len(d.cod)) % 2]
        if style == 'dict':
            ob = {kit.Ty(lab): v for lab, v in img.items()}
        else:
            ob = ob_fn
        F0 = kit.Functor(ob, {})            # for images of types only
        images = {nm: (image_diagram(E, kit, nm, F0(b.dom), F0(b.cod), nm)
                       if nm != 'g0' else kit.Box('Fg0', F0(b.dom), F0(b.cod)))
                  for nm, b in boxes.items()}
        if style == 'dict':
            ar = {b: images[nm] for nm, b in boxes.items()}
        else:
            ar = lambda f: images[f.name]
        F = kit.Functor(ob, ar)
        Fd, Fe = F(d), F(e)
        key = "C04:%s" % cls
        E.check(welltyped(Fd), key + ":image-illtyped")
        E.check(AND(teq(Fd.dom, F(d.dom)), teq(Fd.cod, F(d.cod))),
                key + ":dom-cod")
        eq_both(E, F(d @ e), Fd @ Fe, key + ":tensor")
        eq_both(E, F(kit.Id(d.dom)), kit.Id(F(d.dom)), key + ":identity")
        if bool(d.cod == e.dom):
            eq_both(E, F(d >> e), Fd >> Fe, key + ":composition")
            E.cover("composable")
        eq_both(E, F(d[::-1]), Fd[::-1], key + ":dagger")
        i = E.choice('i', range(len(d) + 1))
        # slices: F(d[:i]) >> F(d[i:]) == F(d), and F(d[:i]) is the prefix
        # of F(d) with the image boxes of the first i boxes
        pre, post = F(d[:i]), F(d[i:])
        eq_both(E, pre >> post, Fd, key + ":slice-halves")
        n_pre = sum(len(images[b.name]) for b in d.boxes[:i])
        eq_both(E, pre, Fd[:n_pre], key + ":slice-prefix")
        # sums
        S = kit.Box.sum
        f1 = kit.Box('s1', d.dom, d.cod)
        images['s1'] = kit.Box('Fs1', F0(d.dom), F0(d.cod))
        if style == 'dict':
            ar[f1] = images['s1']
        E.check(bool(F(d + f1) == F(d) + F(f1)), key + ":sum")
        zero = S([], d.dom, d.cod)
        try:
            E.check(bool(F(zero) == S([], F(d.dom), F(d.cod))),
                    key + ":empty-sum")
        except (ValueError, cat.AxiomError):
            E.fail(key + ":empty-sum")
        E.cover("functor")
        E.cover(style)
    finally:
        hook.enable(False)


def catF(E, k, L):
    from discopy import cat
    obs = [cat.Ob(E.int('x%d' % i, 0, L - 1)) for i in range(k + 1)]
    boxes = [cat.Box('f%d' % i, obs[i], obs[i + 1]) for i in range(k)]
    d = cat.Id(obs[0]).then(*boxes)
    ob = lambda o: cat.Ob(('img', int(o.name)))
    images = {b.name: cat.Box('F' + b.name, ob(b.dom), ob(b.cod))
              for b in boxes}
    style = E.choice('style', ['callable', 'dict'])
    F = cat.Functor(ob if style == 'callable' else {o: ob(o) for o in obs},
                    (lambda f: images[f.name]) if style == 'callable'
                    else {b: images[b.name] for b in boxes})
    i = E.choice('i', range(k + 1))
    E.check(bool(F(d[:i]) >> F(d[i:]) == F(d)), "C04:cat:composition")
    E.check(bool(F(cat.Id(obs[0])) == cat.Id(ob(obs[0]))), "C04:cat:identity")
    E.check(bool(F(d[::-1]) == F(d)[::-1]), "C04:cat:dagger")
    E.check(bool(F(d).dom == ob(d.dom)) and bool(F(d).cod == ob(d.cod)),
            "C04:cat:dom-cod")
    s = d + d
    E.check(bool(F(s) == F(d) + F(d)), "C04:cat:sum")
    try:
        E.check(bool(F(cat.Sum([], d.dom, d.cod))
                     == cat.Sum([], ob(d.dom), ob(d.cod))),
                "C04:cat:empty-sum")
    except ValueError:
        E.fail("C04:cat:empty-sum")
    E.cover("cat")


def rigidF(E, w):
    """adjoints, cups, caps, swaps under rigid functors"""
    from discopy import rigid
    Ty, Ob, Functor = rigid.Ty, rigid.Ob, rigid.Functor
    img = {}
    for lab in 'ab':
        n = E.choice('img' + lab, [1, 2, 0])
        img[lab] = Ty(*[Ob('i%s%d' % (lab, t), E.choice(
            'iz%s%d' % (lab, t), [0, 1])) for t in range(n)])
    style = E.choice('style', ['callable', 'dict'])
    ob = (lambda t: img[t[0].name]) if style == 'callable' \
        else {Ty(lab): v for lab, v in img.items()}
    F = Functor(ob, {})
    n = E.choice('n', range(1, w + 1))
    t = Ty(*[Ob(E.choice('n%d' % i, ['a', 'b']),
                E.choice('z%d' % i, [0, 1, -1, 2, -2])) for i in range(n)])
    E.check(bool(F(t.l) == F(t).l) and bool(F(t.r) == F(t).r),
            "C04:rigid:adjoint-types", info=repr(t))
    x = t[:1]
    kind = E.choice('kind', ['cup-r', 'cup-l', 'cap-r', 'cap-l', 'swap'])
    if kind == 'cup-r':
        b = rigid.Cup(x, x.r)
        exp = rigid.Diagram.cups(F(x), F(x.r))
    elif kind == 'cup-l':
        b = rigid.Cup(x.l, x)
        exp = rigid.Diagram.cups(F(x.l), F(x))
    elif kind == 'cap-r':
        b = rigid.Cap(x.r, x)
        exp = rigid.Diagram.caps(F(x.r), F(x))
    elif kind == 'cap-l':
        b = rigid.Cap(x, x.l)
        exp = rigid.Diagram.caps(F(x), F(x.l))
    else:
        y = t[-1:]
        b = rigid.Swap(x, y)
        exp = rigid.Diagram.swap(F(x), F(y))
    Fb = F(b)
    E.check(bool(Fb == exp), "C04:rigid:%s" % kind, info=repr(b))
    E.check(bool(Fb.dom == F(b.dom)) and bool(Fb.cod == F(b.cod)),
            "C04:rigid:%s:dom-cod" % kind, info=repr(b))
    E.check(welltyped(Fb), "C04:rigid:%s:illtyped" % kind)
    E.check(bool(F(b[::-1]) == Fb[::-1]), "C04:rigid:%s:dagger" % kind,
            info=repr(b))
    # inside a composite
    d = rigid.Id(t[1:]) @ b if kind != 'swap' else b @ rigid.Id(t[1:])
    E.check(bool(F(d).dom == F(d.dom)) and bool(F(d).cod == F(d.cod))
            and welltyped(F(d)), "C04:rigid:%s:composite" % kind)
    E.cover(kind)


def harnesses(tier):
    q = tier == "quick"
    T = 600 if q else 900
    hs = []
    for cls in ('monoidal', 'rigid'):
        k, w, a, L = (1, 2, 1, 2) if q else (1, 2, 2, 2)
        hs.append(H("monoidalF_" + cls, monoidalF,
                    dict(cls=cls, k=k, w=w, a=a, L=L), FUNCS,
                    covers=["functor", "composable", "callable", "dict"],
                    modeb=True, bounds="%s diagrams of %d (+1) boxes, width "
                    "<= %d, arity <= %d; object images of length 0/1/2, box "
                    "images of 0/1/2 boxes; dict and callable" % (cls, k, w, a),
                    outside="ob_factory other than Ty; non-free targets "
                    "(C09/C12/C19)", timeout_s=T))
    hs.append(H("catF", catF, dict(k=2 if q else 3, L=2), FUNCS,
                covers=["cat"], bounds="cat arrows of %d boxes, symbolic "
                "object labels" % (2 if q else 3), timeout_s=T))
    hs.append(H("rigidF", rigidF, dict(w=1 if q else 2), FUNCS,
                covers=['cup-r', 'cup-l', 'cap-r', 'cap-l', 'swap'],
                engine="DSE (choices)", bounds="types of <= %d objects over "
                "{a, b} x z in [-2, 2]; object images of length 0/1/2 with "
                "z in {0, 1}" % (1 if q else 2), timeout_s=T))
    return hs
