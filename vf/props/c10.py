"""C10 - swaps and permutations realise exactly the requested permutation."""
import itertools

import numpy as np

from vf.runner import H
from vf.engine import AND, OR, NOT, Abort, SymInt
from vf import gen, hook
from vf.oracles import welltyped, teq

FUNCS = ["discopy.monoidal.Diagram.swap", "discopy.monoidal.Diagram.permutation",
         "discopy.monoidal.Diagram.permute", "discopy.monoidal.Swap.__init__",
         "discopy.rigid.Diagram.swap", "discopy.rigid.Diagram.permutation",
         "discopy.tensor.Diagram.swap", "discopy.quantum.circuit.Circuit.swap",
         "discopy.quantum.circuit.Circuit.permutation",
         "discopy.quantum.zx.Diagram.swap",
         "discopy.quantum.zx.Diagram.permutation"]


def kit(cls):
    """(Diagram class, Swap class, list of atomic types or None=symbolic)"""
    if cls == 'monoidal':
        from discopy import monoidal as m
        return m.Diagram, m.Swap, None, m.Ty
    if cls == 'rigid':
        from discopy import rigid as m
        return m.Diagram, m.Swap, [m.Ty('a'), m.Ty(m.Ob('a', 1)), m.Ty('b')], m.Ty
    if cls == 'tensor':
        from discopy import tensor as m
        return m.Diagram, m.Swap, [m.Dim(2), m.Dim(3)], m.Dim
    if cls == 'circuit':
        from discopy.quantum import circuit as m
        return m.Circuit, m.Swap, [m.qubit, m.bit], m.Ty
    if cls == 'zx':
        from discopy.quantum import zx as m
        from discopy.rigid import PRO
        return m.Diagram, m.Swap, [PRO(1)], PRO
    raise ValueError(cls)


def mk_ty(E, name, n, atoms, Ty, enum=True):
    if atoms is not None and not enum:
        t = Ty()
        for i in range(n):
            t = t @ atoms[i % len(atoms)]
        return t
    if atoms is None:
        return Ty(*[E.int('%s_%d' % (name, i), 0, 2) for i in range(n)])
    t = Ty()
    for i in range(n):
        t = t @ E.choice('%s_%d' % (name, i), atoms)
    return t


def trace(E, d, Swap, key):
    """follow every input wire through the adjacent swaps"""
    pos = list(range(len(d.dom)))          # pos[p] = input wire now at p
    for box, off in zip(d.boxes, d.offsets):
        from discopy import monoidal
        E.check(isinstance(box, monoidal.Swap) and len(box.dom) == 2
                and len(box.cod) == 2, key + ":non-swap-box", info=repr(box))
        pos[off], pos[off + 1] = pos[off + 1], pos[off]
    return pos


def perm_semantics(E, cls, d, pos, key):
    """classes with a tensor semantics: evaluation = permutation matrix"""
    if cls not in ('tensor', 'circuit', 'zx') or len(d.dom) > 4:
        return
    if cls == 'tensor':
        from discopy import tensor
        arr = tensor.Functor(lambda x: x, {})(d).array
        dims = [int(o.name) for o in d.dom.objects]
    elif cls == 'circuit':
        from discopy import tensor
        arr = tensor.Functor(lambda x: x[0].dim, lambda f: f.array)(d).array
        dims = [2] * len(d.dom)
    else:
        from vf import zxref
        arr = zxref.interpret(d).array
        dims = [2] * len(d.dom)
    n = len(dims)
    ok = True
    arr = np.asarray(arr)
    for idx in itertools.product(*[range(k) for k in dims]):
        out = tuple(idx[pos[p]] for p in range(n))
        for odx in itertools.product(*[range(dims[pos[p]]) for p in range(n)]):
            v = complex(arr[idx + odx]) if n else complex(arr.flatten()[0])
            if abs(v - (1 if odx == out else 0)) > 1e-9:
                ok = False
    E.check(ok, key + ":evaluation-not-permutation-matrix")


def swaps(E, cls, lmax, rmax):
    D, Swap, atoms, Ty = kit(cls)
    hook.enable(True)
    try:
        nl = E.choice('nl', range(lmax + 1))
        nr = E.choice('nr', range(rmax + 1))
        left, right = mk_ty(E, 'l', nl, atoms, Ty), mk_ty(E, 'r', nr, atoms, Ty)
        d = D.swap(left, right)
        key = "C10:%s:swap" % cls
        E.check(AND(teq(d.dom, left @ right), teq(d.cod, right @ left)),
                key + ":dom-cod", info="%s %s" % (nl, nr))
        E.check(welltyped(d), key + ":illtyped")
        pos = trace(E, d, Swap, key)
        E.check(pos == list(range(nl, nl + nr)) + list(range(nl)),
                key + ":wrong-wire-order", info=str(pos))
        perm_semantics(E, cls, d, pos, key)
        E.cover("swap")
        if nl == 0 or nr == 0:
            E.cover("empty-side")
    finally:
        hook.enable(False)


def perms(E, cls, nmax):
    D, Swap, atoms, Ty = kit(cls)
    hook.enable(True)
    try:
        n = E.choice('n', range(nmax + 1))
        # concretised up front: the validity test hashes the entries into a
        # C-level set, which a proxy cannot follow (values solver-enumerated)
        perm = [int(E.int('p%d' % i, -1, n)) for i in range(n)]
        domlen = E.choice('domlen', ['same', 'none', 'longer', 'empty'])
        if domlen == 'none' and cls not in ('monoidal', 'rigid', 'zx', 'circuit'):
            raise Abort()
        dom = None if domlen == 'none' else mk_ty(
            E, 'd', 0 if domlen == 'empty' else
            n + (1 if domlen == 'longer' else 0), atoms, Ty, enum=False)
        wrong_len = domlen == 'longer' or (domlen == 'empty' and n > 0)
        isperm = AND(*([AND(p >= 0, p < n) for p in perm] + [
            perm[i] != perm[j] for i in range(n) for j in range(i + 1, n)])) \
            if n else True
        key = "C10:%s:permutation" % cls
        try:
            d = D.permutation(list(perm), dom) if dom is not None \
                else D.permutation(list(perm))
        except ValueError:
            E.cover("refused")
            E.check(OR(NOT(isperm), wrong_len), key + ":refused-valid")
            return
        E.check(AND(isperm, not wrong_len), key + ":accepted-invalid",
                info="perm=%s dom=%s" % (perm, dom))
        E.cover("accepted")
        perm = [int(p) for p in perm]
        E.check(welltyped(d), key + ":illtyped")
        pos = trace(E, d, Swap, key)
        E.check(len(d.dom) == n and len(d.cod) == n, key + ":dom-cod")
        # input wire i ends at output position perm[i]
        E.check(all(pos[perm[i]] == i for i in range(n)),
                key + ":wire-i-not-at-perm-i", info="perm=%s pos=%s" % (
                    perm, pos))
        if dom is not None:
            E.check(AND(teq(d.dom, dom), *[
                teq(d.cod[perm[i]:perm[i] + 1], dom[i:i + 1])
                for i in range(n)]), key + ":cod-not-permuted-dom")
            # permute() composes with it
            r = D.id(dom).permute(*perm) if hasattr(D, 'permute') else None
            if r is not None:
                E.check(r.offsets == d.offsets and teq(r.cod, d.cod),
                        key + ":permute-differs")
            if cls == 'monoidal' and n:
                # permuting the outputs of a box whose domain differs
                from discopy import monoidal
                f = monoidal.Box('f', monoidal.Ty('in'), dom)
                try:
                    r = f.permute(*perm)
                    E.check(r.offsets[1:] == d.offsets and teq(r.cod, d.cod),
                            key + ":permute-of-a-box-differs")
                except Exception as e:
                    E.fail(key + ":permute-of-a-box-refused", info=repr(e))
        perm_semantics(E, cls, d, pos, key)
    finally:
        hook.enable(False)


def harnesses(tier):
    q = tier == "quick"
    T = 600 if q else 900
    hs = []
    for cls in ('monoidal', 'rigid', 'tensor', 'circuit', 'zx'):
        l, r = (2, 2) if q else (3, 3)
        if cls in ('rigid', 'tensor') and not q:
            l, r = 3, 2
        hs.append(H("swaps_" + cls, swaps, dict(cls=cls, lmax=l, rmax=r),
                    FUNCS, covers=["swap", "empty-side"], modeb=True,
                    bounds="%s: left/right types of length <= %d/%d (%s)" % (
                        cls, l, r, "symbolic labels" if cls == 'monoidal'
                        else "atoms enumerated"), outside="longer types",
                    timeout_s=T))
        n = 4 if q else 5
        if cls in ('tensor',):
            n = 3 if q else 4
        hs.append(H("perms_" + cls, perms, dict(cls=cls, nmax=n), FUNCS,
                    covers=["accepted", "refused"], modeb=True,
                    bounds="%s: perm = list of %d symbolic ints in [-1, n] "
                    "(all permutations and all non-permutations decided by "
                    "the solver), dom of matching / wrong length" % (cls, n),
                    outside="longer permutations", timeout_s=T))
    return hs
