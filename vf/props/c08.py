"""C08 - tensors form a dagger compact-closed category of matrices."""
import itertools

import numpy as np

from vf.runner import H
from vf.engine import Abort
from vf import sym

FUNCS = ["discopy.tensor.Tensor.__init__", "discopy.tensor.Tensor.then",
         "discopy.tensor.Tensor.tensor", "discopy.tensor.Tensor.dagger",
         "discopy.tensor.Tensor.id", "discopy.tensor.Tensor.swap",
         "discopy.tensor.Tensor.cups", "discopy.tensor.Tensor.caps",
         "discopy.tensor.Tensor.transpose", "discopy.tensor.Dim.__init__",
         "discopy.rigid.cups"]


def dims_list(ell, ds):
    out = []
    for n in range(ell + 1):
        out += list(itertools.product(ds, repeat=n))
    return out


def size(*ts):
    n = 1
    for t in ts:
        for d in t:
            n *= d
    return n


def mat(arr, dom, cod):
    """matrix view: flattened dom x flattened cod"""
    return np.asarray(arr, dtype=object).reshape(size(dom), size(cod)) \
        if arr.dtype == object else np.asarray(arr).reshape(
            size(dom), size(cod))


def kron(A, B):
    """Kronecker product of matrices by explicit loops (independent of numpy
    tensordot / moveaxis)"""
    ra, ca = A.shape
    rb, cb = B.shape
    out = np.empty((ra * rb, ca * cb), dtype=object)
    for i in range(ra):
        for j in range(ca):
            for k in range(rb):
                for l in range(cb):
                    out[i * rb + k, j * cb + l] = A[i, j] * B[k, l]
    return out


def matmul(A, B):
    n, m = A.shape
    m2, p = B.shape
    assert m == m2
    out = np.empty((n, p), dtype=object)
    for i in range(n):
        for k in range(p):
            acc = 0
            for j in range(m):
                acc = acc + A[i, j] * B[j, k]
            out[i, k] = acc
    return out


def perm_matrix(l, r):
    """matrix of the block swap l (x) r -> r (x) l on basis vectors"""
    nl, nr = size(l), size(r)
    out = np.zeros((nl * nr, nr * nl), dtype=object)
    for i in range(nl):
        for j in range(nr):
            out[i * nr + j, j * nl + i] = 1
    return out


def eye(n):
    out = np.zeros((n, n), dtype=object)
    for i in range(n):
        out[i, i] = 1
    return out


def gen_tensor(E, name, dom, cod):
    from discopy.tensor import Tensor, Dim
    arr = sym.carr(E, name, tuple(dom) + tuple(cod))
    return Tensor(Dim(*dom), Dim(*cod), arr)


def laws(E, law, ell, ds, cap):
    from discopy.tensor import Tensor, Dim
    sym.begin(E)
    D = dims_list(ell, ds)
    pick = lambda n: E.choice(n, D)
    if law == 'then':
        a, b, c = pick('a'), pick('b'), pick('c')
        if size(a, b) * size(c) > cap * 4 or size(a, b) > cap or size(b, c) > cap:
            raise Abort()
        A, B = gen_tensor(E, 'A', a, b), gen_tensor(E, 'B', b, c)
        r = A >> B
        E.check(r.dom == Dim(*a) and r.cod == Dim(*c), "C08:then:dom-cod")
        sym.prove_equal(E, mat(r.array, a, c),
                        matmul(mat(A.array, a, b), mat(B.array, b, c)),
                        "C08:then:not-matrix-product")
    elif law == 'tensor':
        a, b, c, d = pick('a'), pick('b'), pick('c'), pick('d')
        if size(a, b) * size(c, d) > cap:
            raise Abort()
        A, B = gen_tensor(E, 'A', a, b), gen_tensor(E, 'B', c, d)
        r = A @ B
        E.check(r.dom == Dim(*(a + c)) and r.cod == Dim(*(b + d)),
                "C08:tensor:dom-cod")
        sym.prove_equal(E, mat(r.array, a + c, b + d),
                        kron(mat(A.array, a, b), mat(B.array, c, d)),
                        "C08:tensor:not-kronecker")
    elif law == 'dagger':
        a, b = pick('a'), pick('b')
        if size(a, b) > cap:
            raise Abort()
        A = gen_tensor(E, 'A', a, b)
        r = A.dagger()
        E.check(r.dom == Dim(*b) and r.cod == Dim(*a), "C08:dagger:dom-cod")
        M = mat(A.array, a, b)
        ref = np.empty((size(b), size(a)), dtype=object)
        for i in range(size(a)):
            for j in range(size(b)):
                x = M[i, j]
                ref[j, i] = x.conjugate()
        sym.prove_equal(E, mat(r.array, b, a), ref,
                        "C08:dagger:not-conjugate-transpose")
        sym.prove_equal(E, A.dagger().dagger().array, A.array,
                        "C08:dagger:not-involutive")
    elif law == 'id_swap':
        a, b = pick('a'), pick('b')
        if size(a, b) ** 2 > cap * 8:
            raise Abort()
        i = Tensor.id(Dim(*a))
        sym.prove_equal(E, mat(i.array, a, a), eye(size(a)), "C08:id")
        s = Tensor.swap(Dim(*a), Dim(*b))
        E.check(s.dom == Dim(*(a + b)) and s.cod == Dim(*(b + a)),
                "C08:swap:dom-cod")
        sym.prove_equal(E, mat(s.array, a + b, b + a), perm_matrix(a, b),
                        "C08:swap:not-block-permutation")
    elif law == 'snake':
        a = pick('a')
        if size(a) ** 3 > cap * 8:
            raise Abort()
        x = Dim(*a)
        I = Tensor.id(x)
        left = I @ Tensor.caps(x.l, x) >> Tensor.cups(x, x.l) @ I
        right = Tensor.caps(x, x.r) @ I >> I @ Tensor.cups(x.r, x)
        sym.prove_equal(E, mat(left.array, a, a), eye(size(a)),
                        "C08:snake:left")
        sym.prove_equal(E, mat(right.array, a, a), eye(size(a)),
                        "C08:snake:right")
        # transposing a generic tensor twice (snake with a box inside)
        b = pick('b')
        if size(a, b) * size(a, b) > cap * 4:
            raise Abort()
        A = gen_tensor(E, 'A', a, b)
        y = Dim(*b)
        tr = Tensor.caps(x.r, x) @ Tensor.id(y.r) \
            >> Tensor.id(x.r) @ A @ Tensor.id(y.r) \
            >> Tensor.id(x.r) @ Tensor.cups(y, y.r)
        back = Tensor.id(x) @ Tensor.caps(y.r, y) \
            >> Tensor.id(x) @ tr @ Tensor.id(y) \
            >> Tensor.cups(x, x.r) @ Tensor.id(y)
        sym.prove_equal(E, back.array, A.array, "C08:snake:double-transpose")
    elif law == 'interchange':
        a, b, c = pick('a'), pick('b'), pick('c')
        d, e, f = pick('d'), pick('e'), pick('f')
        if size(a, b) > cap or size(b, c) > cap or size(d, e) > cap \
                or size(e, f) > cap or size(a, d) * size(c, f) > cap:
            raise Abort()
        A, C = gen_tensor(E, 'A', a, b), gen_tensor(E, 'C', b, c)
        B, G = gen_tensor(E, 'B', d, e), gen_tensor(E, 'G', e, f)
        sym.prove_equal(E, ((A @ B) >> (C @ G)).array,
                        ((A >> C) @ (B >> G)).array, "C08:interchange-law")
    elif law == 'swap_natural':
        a, b, c, d = pick('a'), pick('b'), pick('c'), pick('d')
        if size(a, b) * size(c, d) > cap:
            raise Abort()
        A, B = gen_tensor(E, 'A', a, b), gen_tensor(E, 'B', c, d)
        lhs = (A @ B) >> Tensor.swap(Dim(*b), Dim(*d))
        rhs = Tensor.swap(Dim(*a), Dim(*c)) >> (B @ A)
        sym.prove_equal(E, lhs.array, rhs.array, "C08:swap-naturality")
    E.cover(law)


def harnesses(tier):
    q = tier == "quick"
    T = 600 if q else 900
    hs = []
    for law in ('then', 'tensor', 'dagger', 'id_swap', 'snake', 'interchange',
                'swap_natural'):
        ell, ds, cap = (2, (2, 3), 36) if q else (2, (2, 3), 216)
        if law in ('interchange',):
            ell, ds, cap = (1, (2, 3), 36) if q else (1, (2, 3), 81)
        if law in ('tensor', 'swap_natural') and q:
            ell, cap = 1, 36
        if law in ('then', 'dagger', 'id_swap', 'snake') and not q:
            ell, ds, cap = 3, (2, 3), 216
        hs.append(H("laws_" + law, laws, dict(law=law, ell=ell, ds=ds, cap=cap),
                    FUNCS, covers=[law], engine="SYM (z3 QF_NRA)",
                    bounds="dimension tuples of length <= %d over %s (Dim(1) "
                    "is the empty tuple), generic complex arrays, array size "
                    "cap %d" % (ell, ds, cap),
                    outside="larger dimensions; jax backend; float rounding",
                    timeout_s=T))
    return hs
