"""C19 - cartesian diagrams compute the function they draw (EUF)."""
import z3

from vf.runner import H
from vf.engine import SymInt, SymBool, AND, Abort, lift

FUNCS = ["discopy.cartesian.Function.__call__", "discopy.cartesian.Function.then",
         "discopy.cartesian.Function.tensor", "discopy.cartesian.Function.id",
         "discopy.cartesian.tuplify", "discopy.cartesian.untuplify",
         "discopy.cartesian.Diagram.__call__", "discopy.cartesian.Swap.__init__",
         "discopy.cartesian.Copy.__init__", "discopy.cartesian.Discard.__init__",
         "discopy.rigid.Functor.__call__", "discopy.monoidal.Functor.__call__"]


class Const:
    """concrete-mode stand-in for an uninterpreted function: a fixed injective
    encoding of (name, output index, arguments)"""
    pass


def ufbox(E, name, a, b):
    """a cartesian Box whose function is uninterpreted (z3 function symbols
    in symbolic mode; an injective arithmetic code in concrete replay)"""
    from discopy.cartesian import Box
    if E.symbolic:
        fs = [z3.Function('%s_%d' % (name, j), *([z3.IntSort()] * (a + 1)))
              if a else z3.Int('%s_%d' % (name, j)) for j in range(b)]

        def fn(*xs):
            outs = tuple(SymInt(f(*[lift(x) for x in xs]) if a else f)
                         for f in fs)
            return outs[0] if b == 1 else outs
    else:
        seed = sum(ord(ch) * 31 ** i for i, ch in enumerate(name)) % 9973

        def fn(*xs):
            outs = []
            for j in range(b):
                v = seed * 7 + j * 13 + 1
                for x in xs:
                    v = (v * 1000003 + int(x) * 7919 + 17) % (2 ** 61 - 1)
                outs.append(v)
            outs = tuple(outs)
            return outs[0] if b == 1 else outs
    return Box(name, a, b, fn)


def ref(d, xs):
    """reference: feed the inputs through the boxes in order, each applied to
    the wires at its offset, outputs spliced back in place"""
    xs = list(xs)
    for box, off in zip(d.boxes, d.offsets):
        a = len(box.dom)
        out = box.function(*xs[off:off + a])
        out = out if isinstance(out, tuple) else (out,)
        xs = xs[:off] + list(out) + xs[off + a:]
    return tuple(xs)


def same(got, exp):
    got = got if isinstance(got, tuple) else (got,)
    if len(got) != len(exp):
        return False
    return AND(*[g == e for g, e in zip(got, exp)]) if got else True


def diagrams(E, k, a, w):
    from discopy.cartesian import Id, Box
    wd = E.choice('w', range(w + 1))
    d = Id(wd)
    for i in range(k):
        n = len(d.cod)
        da = E.choice('a%d' % i, range(0, min(a, n) + 1))
        db = E.choice('b%d' % i, range(0, a + 1))
        off = E.choice('o%d' % i, range(0, n - da + 1))
        if n - da + db > w + 1:
            raise Abort()
        box = ufbox(E, 'f%d' % i, da, db)
        d = d >> Id(off) @ box @ Id(n - off - da)
    xs = [E.int('x%d' % i) for i in range(wd)]
    got = d(*xs)
    exp = ref(d, xs)
    if len(exp) == 1:
        got_t = got if isinstance(got, tuple) else (got,)
    else:
        got_t = got
    E.check(same(got_t, exp), "C19:diagram:wrong-output",
            info="%s offsets=%s" % (d.boxes, d.offsets))
    # wrong number of inputs is refused
    try:
        d(*(xs + [0]))
        E.fail("C19:diagram:accepted-wrong-input-length")
    except TypeError:
        pass
    E.cover("k%d" % len(d.boxes))


def structural(E, n):
    """Swap, Copy, Discard of any width; naturality for uninterpreted f"""
    from discopy.cartesian import Id, Swap, Copy, Discard
    kind = E.choice('kind', ['swap', 'copy', 'discard', 'nat-swap',
                             'nat-copy', 'nat-discard', 'identity'])
    if kind == 'identity':
        # box-less diagrams follow the same return convention as any other
        # (a single wire is returned as a value, not as a 1-tuple)
        from discopy.cartesian import untuplify
        m = E.choice('m', range(n + 1))
        xs = [E.int('x%d' % i) for i in range(m)]
        for d in (Id(m), Swap(m, 0), Swap(0, m), Id(m) @ Id(0)):
            got = d(*xs)
            E.check(isinstance(got, tuple) == (m != 1),
                    "C19:identity:return-convention", info="%s on %d" % (d, m))
            got = got if isinstance(got, tuple) else (got,)
            E.check(same(got, tuple(xs)), "C19:identity:wrong-output")
        if m == 1:
            lhs = (Copy(1) >> Id(1) @ Discard(1))(*xs)
            E.check(not isinstance(lhs, tuple) and bool(lhs == xs[0]),
                    "C19:identity:counit")
        E.cover(kind)
        return
    if kind == 'swap':
        l, r = E.choice('l', range(n + 1)), E.choice('r', range(n + 1))
        xs = [E.int('x%d' % i) for i in range(l + r)]
        got = Swap(l, r)(*xs)
        exp = tuple(xs[l:] + xs[:l])
        got = got if isinstance(got, tuple) else (got,)
        E.check(same(got, exp), "C19:swap:not-block-exchange",
                info="%d %d" % (l, r))
    elif kind == 'copy':
        m = E.choice('m', range(n + 1))
        xs = [E.int('x%d' % i) for i in range(m)]
        got = Copy(m)(*xs)
        got = got if isinstance(got, tuple) else (got,)
        E.check(same(got, tuple(xs + xs)), "C19:copy:not-duplicate")
    elif kind == 'discard':
        m = E.choice('m', range(n + 1))
        xs = [E.int('x%d' % i) for i in range(m)]
        got = Discard(m)(*xs)
        E.check(got == (), "C19:discard:not-empty")
    else:
        a = E.choice('a', range(0, 3))
        b = E.choice('b', range(0, 3))
        f = ufbox(E, 'f', a, b)
        if kind == 'nat-swap':
            c = E.choice('c', range(0, 3))
            e = E.choice('e', range(0, 3))
            g = ufbox(E, 'g', c, e)
            xs = [E.int('x%d' % i) for i in range(a + c)]
            lhs = (f @ g >> Swap(b, e))(*xs)
            rhs = (Swap(a, c) >> g @ f)(*xs)
        elif kind == 'nat-copy':
            xs = [E.int('x%d' % i) for i in range(a)]
            lhs = (f >> Copy(b))(*xs)
            rhs = (Copy(a) >> f @ f)(*xs)
        else:
            xs = [E.int('x%d' % i) for i in range(a)]
            lhs = (f >> Discard(b))(*xs)
            rhs = Discard(a)(*xs)
        lhs = lhs if isinstance(lhs, tuple) else (lhs,)
        rhs = rhs if isinstance(rhs, tuple) else (rhs,)
        E.check(same(lhs, rhs), "C19:naturality:" + kind)
    E.cover(kind)


def functions(E):
    """Function.then / tensor / id directly"""
    from discopy.cartesian import Function
    a, b, c = (E.choice(n, range(0, 3)) for n in 'abc')
    f = ufbox(E, 'f', a, b)
    g = ufbox(E, 'g', b, c)
    h = ufbox(E, 'h', c, a)
    F = Function(a, b, f.function)
    G = Function(b, c, g.function)
    Hh = Function(c, a, h.function)
    xs = [E.int('x%d' % i) for i in range(a)]
    ys = [E.int('y%d' % i) for i in range(c)]
    tup = lambda v: v if isinstance(v, tuple) else (v,)
    got = tup((F >> G)(*xs))
    mid = tup(f.function(*xs))
    exp = tup(g.function(*mid))
    E.check(same(got, exp), "C19:function:then")
    got = tup((F @ Hh)(*(xs + ys)))
    exp = tup(f.function(*xs)) + tup(h.function(*ys))
    E.check(same(got, exp), "C19:function:tensor")
    got = tup(Function.id(a)(*xs))
    E.check(same(got, tuple(xs)), "C19:function:id")
    E.cover("functions")


def harnesses(tier):
    q = tier == "quick"
    T = 600 if q else 900
    hs = []
    for k, a, w in ([(2, 2, 3), (3, 1, 2)] if q else [(3, 2, 3), (4, 1, 3)]):
        hs.append(H("diagrams_k%d_a%d" % (k, a), diagrams, dict(k=k, a=a, w=w),
                    FUNCS, covers=["k%d" % k], engine="DSE + EUF (boxes are "
                    "uninterpreted z3 functions, inputs symbolic integers)",
                    bounds="diagrams of %d boxes with 0..%d inputs and "
                    "outputs at every offset, width <= %d" % (k, a, w + 1),
                    outside="boxes returning tuples as single values",
                    timeout_s=T))
    hs.append(H("structural", structural, dict(n=3 if q else 4), FUNCS,
                covers=['swap', 'copy', 'discard', 'nat-swap', 'nat-copy',
                        'nat-discard', 'identity'], engine="DSE + EUF",
                bounds="Swap(l, r), Copy(n), Discard(n) for all l, r, n <= %d;"
                " naturality for uninterpreted boxes of arity <= 2"
                % (3 if q else 4), timeout_s=T))
    hs.append(H("functions", functions, {}, FUNCS, covers=["functions"],
                engine="DSE + EUF", bounds="Function.then/tensor/id for "
                "uninterpreted functions of arity 0..2", timeout_s=T))
    return hs
