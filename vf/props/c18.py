"""C18 - grammar front-ends only produce well-typed, grammatical derivations."""
import itertools

from vf.runner import H
from vf.engine import Abort
from vf import hook
from vf.oracles import welltyped

# no symbolic content in these harnesses: exhaustive enumeration by the engine
LEVEL = "exploration"

FUNCS = ["discopy.grammar.pregroup.eager_parse", "discopy.grammar.pregroup.brute_force",
         "discopy.grammar.cfg.CFG.generate", "discopy.grammar.cfg.Word.__init__",
         "discopy.grammar.ccg.cat2ty", "discopy.grammar.ccg.tree2diagram",
         "discopy.biclosed.Functor.__call__", "discopy.biclosed.Curry.__init__",
         "discopy.rigid.Diagram.fa", "discopy.rigid.Diagram.ba",
         "discopy.rigid.Diagram.fc", "discopy.rigid.Diagram.bc",
         "discopy.rigid.Diagram.fx", "discopy.rigid.Diagram.bx",
         "discopy.rigid.Diagram.curry"]


def check_pregroup(E, d, words, target, key):
    from discopy import rigid
    from discopy.grammar.pregroup import Word
    E.check(bool(d.dom == rigid.Ty()) and bool(d.cod == target),
            key + ":dom-cod", info=str(d))
    E.check(welltyped(d), key + ":illtyped", info=str(d))
    n = len(words)
    E.check(len(d.boxes) >= n and all(
        d.boxes[i] is words[i] or d.boxes[i] == words[i] for i in range(n)),
        key + ":words-not-in-order", info=str(d))
    scan = rigid.Ty().tensor(*[w.cod for w in words])
    ok = True
    for b, off in zip(d.boxes[n:], d.offsets[n:]):
        if not isinstance(b, rigid.Cup):
            ok = False
            break
        l, r = scan[off:off + 1], scan[off + 1:off + 2]
        if not (len(l) == 1 and len(r) == 1 and (l.r == r or l == r.r)
                and l == b.dom[:1] and r == b.dom[1:]):
            ok = False
            break
        scan = scan[:off] @ scan[off + 2:]
    E.check(ok, key + ":not-only-cups-between-adjacent-adjoints", info=str(d))


def pregroup(E, nwords, maxlen):
    from discopy import rigid
    from discopy.grammar.pregroup import Word, eager_parse, brute_force
    hook.enable(True)
    try:
        n, s = rigid.Ty('n'), rigid.Ty('s')
        simple = [n, s, n.r, n.l, s.l, n.r.r, s.r]
        cods = [n, n.r @ s, n.r @ s @ n.l, s, n @ n.l, n.r @ s @ s.l @ n,
                n.r.r @ n.r, s.r @ n.r.r @ n.r @ s]
        vocab = [Word('w%d' % i, E.choice('cod%d' % i, cods))
                 for i in range(nwords)]
        target = E.choice('target', [s, n, rigid.Ty(), n.r @ s, s @ s])
        k = E.choice('len', range(1, maxlen + 1))
        words = [E.choice('word%d' % i, vocab) for i in range(k)]
        try:
            d = eager_parse(*words, target=target)
            check_pregroup(E, d, words, target, "C18:eager_parse")
            E.cover("parsed")
        except NotImplementedError:
            E.cover("refused")
            return      # brute_force never returns when nothing parses
        # brute force: the first results
        count = 0
        gen = brute_force(*vocab, target=target)
        import itertools as it
        tried = 0
        for d in gen:
            nw = sum(isinstance(b, Word) for b in d.boxes)
            check_pregroup(E, d, d.boxes[:nw], target, "C18:brute_force")
            count += 1
            break       # a second result may not exist: the search is unbounded
        if count:
            E.cover("brute")
    finally:
        hook.enable(False)


def cfg_generate(E, max_depth):
    import random
    from discopy.grammar.cfg import CFG, Word
    from discopy.monoidal import Ty, Box, Id
    s, n, v, vp = Ty('S'), Ty('N'), Ty('V'), Ty('VP')
    R0 = Box('R0', n @ vp, s)
    R1 = Box('R1', v @ n, vp)
    R2 = Box('R2', n @ n, n)          # recursive
    jane, loves, bob = Word('Jane', n), Word('loves', v), Word('Bob', n)
    prods = [R0, R1, R2, jane, loves, bob]
    g = CFG(*prods)
    calls = [0]
    orig = random.shuffle

    def shuffle(lst):
        # environment stub: the permutation is chosen by the engine
        i = calls[0]
        calls[0] += 1
        if i >= 3:
            return
        rot = E.choice('rot%d' % i, range(len(lst)))
        rev = E.choice('rev%d' % i, [False, True])
        items = lst[rot:] + lst[:rot]
        if rev:
            items.reverse()
        lst[:] = items
    not_twice = E.choice('not_twice', [None, [R2]])
    dedup = E.choice('dedup', [False, True])
    random.shuffle = shuffle
    try:
        out = list(g.generate(s, 3, max_depth, max_iter=4,
                              remove_duplicates=dedup, not_twice=not_twice))
    finally:
        random.shuffle = orig
    for d in out:
        E.check(bool(d.dom == Ty()) and bool(d.cod == s),
                "C18:cfg:not-a-derivation-of-start", info=str(d))
        E.check(welltyped(d), "C18:cfg:illtyped", info=str(d))
        E.check(all(any(b == p for p in prods) for b in d.boxes),
                "C18:cfg:foreign-production", info=str(d))
        E.check(len(d.boxes) <= max_depth, "C18:cfg:deeper-than-max_depth",
                info=str(d))
        if not_twice:
            E.check(sum(b == R2 for b in d.boxes) <= 1,
                    "C18:cfg:not_twice-violated", info=str(d))
    if dedup:
        E.check(len(set(map(repr, out))) == len(out),
                "C18:cfg:duplicates-not-removed")
    E.check(len(out) <= 3, "C18:cfg:more-than-max_sentences")
    E.cover("generated" if out else "none")


def bictypes(E, depth, tag='t'):
    """biclosed types as trees chosen by the engine"""
    from discopy import biclosed as B
    atoms = [B.Ty('x'), B.Ty('y'), B.Ty('z')]
    if depth == 0:
        return E.choice(tag, atoms)
    kind = E.choice(tag + 'k', ['atom', 'over', 'under', 'pair'])
    if kind == 'atom':
        return E.choice(tag, atoms)
    l = bictypes(E, depth - 1, tag + 'l')
    r = bictypes(E, depth - 1, tag + 'r')
    if kind == 'over':
        return l << r
    if kind == 'under':
        return l >> r
    return l @ r


def biclosed(E, depth, kinds=None):
    from discopy import biclosed as B, rigid
    hook.enable(True)
    try:
        F = B.biclosed2rigid
        kind = E.choice('kind', kinds or ['FA', 'BA', 'FC', 'BC', 'FX', 'BX',
                                          'Curry', 'Curry-left', 'composite'])
        a, b = bictypes(E, depth, 'a'), bictypes(E, min(depth, 1)
                                                 if depth < 2 else 0, 'b')
        if kind in ('FA', 'BA') and E.choice('empty-arg', [False, True]):
            b = B.Ty()          # application to the empty type
        if kind == 'FA':
            d = B.FA(a << b)
        elif kind == 'BA':
            d = B.BA(a >> b)
        else:
            c = bictypes(E, max(depth - 1, 0), 'c')
            if kind == 'FC':
                d = B.FC(a << b, b << c)
            elif kind == 'BC':
                d = B.BC(a >> b, b >> c)
            elif kind == 'FX':
                d = B.FX(a << b, c >> b)
            elif kind == 'BX':
                d = B.BX(b << a, b >> c)
            elif kind in ('Curry', 'Curry-left'):
                left = kind == 'Curry-left'
                f = B.Box('f', a @ b, c)
                n = E.choice('n_wires', [1, len(b) if not left else len(a)])
                d = B.Curry(f, n_wires=n, left=left)
            else:
                # a two-box derivation: application after a generic box
                w = B.Box('w', B.Ty(), a << b)
                u = B.Box('u', B.Ty(), b)
                d = w @ u >> B.FA(a << b)
        E.note('box', repr(d) if len(repr(d)) < 300 else str(d))
        try:
            r = F(d)
        except Exception as e:
            E.fail("C18:biclosed2rigid:%s:raises-%s" % (kind, type(e).__name__),
                   info="%s: %s" % (d, e))
            return
        E.check(bool(r.dom == F(d.dom)) and bool(r.cod == F(d.cod)),
                "C18:biclosed2rigid:%s:type-not-preserved" % kind,
                info="%s: %s -> %s expected %s -> %s" % (
                    d, r.dom, r.cod, F(d.dom), F(d.cod)))
        E.check(welltyped(r), "C18:biclosed2rigid:%s:illtyped" % kind,
                info=str(d))
        E.cover(kind)
    finally:
        hook.enable(False)


def cat_string(E, depth, tag='c', modifiers=True):
    """a CCG category as (string, biclosed type) from an engine-chosen tree"""
    from discopy import biclosed as B
    if depth == 0 or E.choice(tag + 'k', ['atom', 'slash']) == 'atom':
        a = E.choice(tag, ['S', 'NP', 'N'])
        mod = E.choice(tag + 'm', ['', '[dcl]', '[nb]']) if modifiers else ''
        return a + mod, B.Ty(a)
    ls, lt = cat_string(E, depth - 1, tag + 'l', modifiers)
    rs, rt = cat_string(E, depth - 1, tag + 'r', modifiers)
    par = lambda s_: '(%s)' % s_ if ('/' in s_ or chr(92) in s_) else s_
    if E.choice(tag + 's', ['/', 'bs']) == '/':
        return par(ls) + '/' + par(rs), lt << rt
    return par(ls) + chr(92) + par(rs), rt >> lt


def ccg(E, depth):
    from discopy import biclosed as B
    from discopy.grammar.ccg import cat2ty, tree2diagram
    kind = E.choice('kind', ['cat2ty', 'tree'])
    if kind == 'cat2ty':
        s_, t = cat_string(E, depth)
        got = cat2ty(s_)
        E.check(bool(got == t) and repr(got) == repr(t),
                "C18:cat2ty:wrong-type", info="%s -> %r expected %r" % (
                    s_, got, t))
        E.cover("cat2ty")
        return
    xs, xt = cat_string(E, 1, 'x', False)
    ys, yt = cat_string(E, 1, 'y', False)
    rule = E.choice('rule', ['fa', 'ba', 'fc', 'other'])
    par = lambda s_: '(%s)' % s_ if ('/' in s_ or chr(92) in s_) else s_
    if rule == 'fa':
        left = dict(word='a', cat=par(xs) + '/' + par(ys))
        right = dict(word='b', cat=ys)
        cat, expected = xs, xt
    elif rule == 'ba':
        left = dict(word='a', cat=ys)
        right = dict(word='b', cat=par(xs) + chr(92) + par(ys))
        cat, expected = xs, xt
    elif rule == 'fc':
        left = dict(word='a', cat=par(xs) + '/' + par(ys))
        right = dict(word='b', cat=par(ys) + '/NP')
        cat, expected = par(xs) + '/NP', xt << B.Ty('NP')
    else:
        left = dict(word='a', cat=xs)
        right = dict(word='b', cat=ys)
        cat, expected = 'S', B.Ty('S')
    tree = dict(type=rule if rule != 'other' else 'conj', cat=cat,
                children=[left, right])
    d = tree2diagram(tree)
    E.check(welltyped(d), "C18:tree2diagram:illtyped", info=str(tree))
    E.check(bool(d.dom == B.Ty()) and bool(d.cod == expected),
            "C18:tree2diagram:wrong-cod", info="%s: %s" % (tree, d.cod))
    r = B.biclosed2rigid(d)
    E.check(bool(r.cod == B.biclosed2rigid(d.cod)) and welltyped(r),
            "C18:tree2diagram:rigid-image", info=str(tree))
    E.cover("tree-" + rule)


def harnesses(tier):
    q = tier == "quick"
    T = 600 if q else 900
    deep = [] if q else [
        H("biclosed_deep", biclosed, dict(depth=2, kinds=['FA', 'BA']), FUNCS,
          covers=['FA', 'BA'], engine="DSE (choices)", bounds="FA and BA "
          "over type trees of depth <= 2 (nested slashes, composite sides)",
          timeout_s=T)]
    return deep + [
        H("pregroup", pregroup, dict(nwords=2, maxlen=2 if q else 3), FUNCS,
          covers=["parsed", "refused", "brute"], engine="DSE (choices)",
          bounds="vocabularies of 2 words with codomains from 8 types over "
          "{n, s} x z in [-1, 2], 5 targets, sentences of <= %d words, first "
          "result of brute_force" % (2 if q else 3), timeout_s=T),
        H("cfg_generate", cfg_generate, dict(max_depth=6 if q else 8), FUNCS,
          covers=["generated"], engine="DSE (choices)",
          stubs=["random.shuffle replaced by an engine-chosen rotation/"
                 "reversal for the first 3 calls"],
          bounds="a 6-production grammar with a recursive rule, max_depth %d, "
          "not_twice / remove_duplicates on and off" % (6 if q else 8),
          outside="other grammars; seeds of the real PRNG", timeout_s=T),
        H("biclosed", biclosed, dict(depth=1), FUNCS,
          covers=['FA', 'BA', 'FC', 'BC', 'FX', 'BX', 'Curry', 'Curry-left',
                  'composite'], engine="DSE (choices)",
          bounds="FA, BA, FC, BC, FX, BX, Curry (left/right, n_wires 1 or "
          "all) over type trees of depth <= 1 of <<, >>, @ on 3 atoms (and "
          "the empty type as argument of FA/BA)",
          outside="deeper nesting; depccg itself", timeout_s=T),
        H("ccg", ccg, dict(depth=2), FUNCS,
          covers=["cat2ty", "tree-fa", "tree-ba", "tree-fc", "tree-other"],
          engine="DSE (choices)", bounds="category strings from trees of "
          "depth <= 2 with [feature] modifiers; JSON trees of depth 1 for "
          "fa / ba / fc / other rules",
          outside="symbolic strings (regex on symbolic str is inconclusive "
          "with this tool set)", timeout_s=T)]
