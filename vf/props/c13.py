"""C13 - translation to and from tket preserves the meaning of circuits."""
import itertools

import numpy as np

from vf.runner import H
from vf.engine import Abort
from vf import sym
from vf.props.c11 import ref_rotation, validate_reference

FUNCS = ["discopy.quantum.tk.to_tk", "discopy.quantum.tk.from_tk",
         "discopy.quantum.tk.Circuit.add_bit",
         "discopy.quantum.tk.Circuit.rename_units",
         "discopy.quantum.tk.Circuit.get_counts",
         "discopy.quantum.tk.Circuit.post_select",
         "discopy.quantum.tk.Circuit.post_process",
         "discopy.quantum.tk.Circuit.scale", "discopy.quantum.tk.Circuit.upgrade",
         "discopy.quantum.circuit.Circuit.eval",
         "discopy.quantum.circuit.Circuit.get_counts",
         "discopy.quantum.circuit.Circuit.init_and_discard"]


# ------------------------------------------------- reference tket semantics

def op_matrix(cmd, exact=True):
    """matrix U[out, in] of a tket command (symbolic for rotations)"""
    import sympy
    from pytket.circuit import OpType
    name = cmd.op.type.name
    if name in ('Rx', 'Rz', 'CRz', 'Ry', 'CRx', 'CU1'):
        half_turns = sympy.sympify(cmd.op.params[0])
        return np.array(ref_rotation(name, half_turns / 2), dtype=object)
    U = cmd.op.get_unitary()
    out = np.empty(U.shape, dtype=object)
    for i in range(U.shape[0]):
        for j in range(U.shape[1]):
            v = complex(U[i, j])
            if not exact:
                out[i, j] = v if v != 0 else 0
                continue
            out[i, j] = sympy.nsimplify(v, [sympy.sqrt(2)], tolerance=1e-12) \
                if v != 0 else 0
    return out


def apply_gate(state, U, qs, n):
    """state: object array shape (2,)*n; U[out, in] on qubits qs"""
    m = len(qs)
    new = np.zeros_like(state)
    for idx in itertools.product((0, 1), repeat=n):
        amp = state[idx]
        if isinstance(amp, int) and amp == 0:
            continue
        i_in = sum(idx[q] << (m - 1 - t) for t, q in enumerate(qs))
        for o in range(2 ** m):
            u = U[o, i_in]
            if isinstance(u, int) and u == 0:
                continue
            out = list(idx)
            for t, q in enumerate(qs):
                out[q] = (o >> (m - 1 - t)) & 1
            new[tuple(out)] = new[tuple(out)] + u * amp
    return new


def simulate(tk_circ):
    """exact distribution over the full bit register of a tket circuit with
    mid-circuit measurements: dict bits -> probability (sympy expressions)"""
    import sympy
    n, nb = tk_circ.n_qubits, len(tk_circ.bits)
    # exact (sympy) arithmetic only when some angle is symbolic
    exact = any(getattr(p_, 'free_symbols', None)
                for cmd in tk_circ.get_commands() for p_ in cmd.op.params)
    state = np.zeros((2,) * n or (1,), dtype=object)
    state[(0,) * n or (0,)] = 1
    branches = [((0,) * nb, state)]
    for cmd in tk_circ.get_commands():
        name = cmd.op.type.name
        qs = [q.index[0] for q in cmd.qubits]
        if name == 'Measure':
            b = cmd.bits[0].index[0]
            new = []
            for bits, st in branches:
                for outcome in (0, 1):
                    proj = np.zeros_like(st)
                    sel = [slice(None)] * n
                    sel[qs[0]] = outcome
                    proj[tuple(sel)] = st[tuple(sel)]
                    nbits = list(bits)
                    nbits[b] = outcome
                    new.append((tuple(nbits), proj))
            branches = new
        else:
            U = op_matrix(cmd, exact)
            branches = [(bits, apply_gate(st, U, qs, n))
                        for bits, st in branches]
    dist = {}
    for bits, st in branches:
        p = 0
        for a in st.flatten():
            if isinstance(a, int) and a == 0:
                continue
            p = p + (sympy.conjugate(a) * a if exact else abs(a) ** 2)
        dist[bits] = dist.get(bits, 0) + p
    return dist


def exported_distribution(tk_circ):
    """what the exported circuit means once run exactly and post-processed
    with the recorded post-selection, scalar and classical post-processing"""
    dist = simulate(tk_circ)
    ps = tk_circ.post_selection
    nb = len(tk_circ.bits)
    keep = [i for i in range(nb) if i not in ps]
    vec = np.zeros((2,) * len(keep) or (1,), dtype=object)
    for bits, p in dist.items():
        if all(bits[i] == v for i, v in ps.items()):
            key = tuple(bits[i] for i in keep)
            vec[key or (0,)] = vec[key or (0,)] + p * tk_circ.scalar
    pp = tk_circ.post_processing
    if len(pp.boxes):
        from discopy.tensor import Tensor, Dim
        t = Tensor(Dim(1), Dim(*(len(keep) * (2,))), vec)
        vec = (t >> pp.eval()).array
    return vec


# --------------------------------------------------------------- generator

def gen_circuit(E, m, nmax=2, alphabet=None, start=None):
    import sympy
    from discopy.quantum import gates as G
    from discopy.quantum.circuit import (Id, qubit, bit, Measure, Discard,
                                         Swap)
    c = Id(0)
    if start is not None:
        c = G.Ket(*[0] * start) >> Id(0).tensor(*[G.H] * start)
    else:
        nprep = E.choice('nprep', [1, 2])
        for i in range(nprep):
            c = c @ E.choice('prep%d' % i, [G.Ket(0), G.Ket(1), G.Bits(0)])
    nsym = 0
    for layer in range(m):
        scan = c.cod
        opts = [('ket', off) for off in range(len(scan) + 1)
                if scan.count(qubit) < nmax]
        opts += [('bits', off) for off in range(len(scan) + 1)
                 if scan.count(bit) < nmax]
        opts += [('scalar', 0)]
        for off in range(len(scan)):
            t, t2 = scan[off:off + 1], scan[off + 1:off + 2]
            if t == qubit:
                opts += [('Rx', off), ('H', off), ('measure', off),
                         ('measure-nd', off), ('discard', off), ('bra0', off),
                         ('bra1', off), ('Y', off)]
                if t2 == qubit:
                    opts += [('CRz', off), ('CX', off), ('SWAP', off)]
                if t2 == bit:
                    opts += [('measure-ov', off), ('swap-qb', off)]
            else:
                opts += [('not', off), ('discard-bit', off), ('copy', off)]
                if t2 == bit:
                    opts += [('swap-bb', off), ('match', off)]
                if t2 == qubit:
                    opts += [('swap-bq', off)]
        if alphabet is not None:
            opts = [o for o in opts if o[0] in alphabet]
        kind, off = E.choice('op%d' % layer, opts)
        if kind in ('Rx', 'CRz'):
            nsym += 1
            g = getattr(G, kind)(sym.sym(E, 'p%d' % layer))
        elif kind in ('H', 'CX', 'SWAP', 'Y'):
            g = getattr(G, kind)
        elif kind == 'ket':
            g = G.Ket(0)
        elif kind == 'bits':
            g = G.Bits(0)
        elif kind == 'scalar':
            g = G.scalar(0.5)
        elif kind == 'measure':
            g = Measure()
        elif kind == 'measure-nd':
            g = Measure(1, destructive=False)
        elif kind == 'measure-ov':
            g = Measure(1, destructive=True, override_bits=True)
        elif kind == 'discard':
            g = Discard()
        elif kind == 'discard-bit':
            g = Discard(bit)
        elif kind == 'bra0':
            g = G.Bra(0)
        elif kind == 'bra1':
            g = G.Bra(1)
        elif kind == 'copy':
            g = G.Copy()
        elif kind == 'match':
            g = G.Match()
        elif kind == 'not':
            g = G.ClassicalGate('NOT', 1, 1, [0, 1, 1, 0])
        elif kind == 'swap-bb':
            g = Swap(bit, bit)
        elif kind == 'swap-qb':
            g = Swap(qubit, bit)
        else:
            g = Swap(bit, qubit)
        if kind in ('ket', 'bits', 'scalar'):
            c = c >> Id(scan[:off]) @ g @ Id(scan[off:])
        else:
            c = c >> Id(scan[:off]) @ g @ Id(scan[off + len(g.dom):])
    return c


def shape_key(c):
    """finding signature: the feature of the circuit that matters for the
    bit bookkeeping of to_tk"""
    from discopy.quantum.circuit import bit, Measure, Discard
    from discopy.quantum.gates import Bits
    from discopy.quantum.gates import ClassicalGate
    feats = set()
    scan = c.dom
    classical_seen = False
    bra_seen = False
    from discopy.quantum.gates import Bra
    from discopy.quantum.circuit import Swap as CSwap
    for box, off in zip(c.boxes, c.offsets):
        if isinstance(box, Bra):
            bra_seen = True
        if isinstance(box, CSwap) and box.dom == bit @ bit and bra_seen:
            feats.add('bit-swap-after-post-selection')
        if isinstance(box, ClassicalGate) and len(box.dom):
            classical_seen = True
        if isinstance(box, Measure) and box.override_bits and classical_seen:
            feats.add('classical-gate-before-override')
        right = scan[off + len(box.dom):]
        if isinstance(box, Discard) and box.dom.count(bit):
            feats.add('discard-bit')
        if isinstance(box, Bits) and not box.is_dagger and right.count(bit):
            feats.add('bits-left-of-a-bit')
        if isinstance(box, Measure) and right.count(bit):
            feats.add('measure-left-of-a-bit')
        scan = scan[:off] @ box.cod @ right
    return '+'.join(sorted(feats)) or 'plain'


def export(E, m, nmax=2, alphabet=None, start=None):
    """to_tk then exact simulation + recorded post-processing == local
    mixed evaluation, for all phases"""
    sym.begin(E)
    validate_reference(E)
    c = gen_circuit(E, m, nmax, alphabet, start)
    E.note('circuit', str(c))
    try:
        t = c.to_tk()
    except NotImplementedError:
        E.cover("refused")
        return
    except Exception as e:
        E.fail("C13:to_tk:raises-%s:%s" % (type(e).__name__, shape_key(c)),
               info=str(c))
        return
    local = c.init_and_discard().eval(mixed=True).array
    got = exported_distribution(t)
    sym.prove_equal(E, got, local, "C13:to_tk:distribution-differs:"
                    + shape_key(c), info=str(c) + " | " + repr(t))
    E.cover("exported")
    # importing the exported circuit back
    from discopy.quantum.circuit import Circuit
    back = Circuit.from_tk(t)
    E.note('back', str(back))
    sym.prove_equal(E, back.eval(mixed=True).array, local,
                    "C13:from_tk(to_tk):evaluation-differs:" + shape_key(c),
                    info=str(c) + " | " + str(back))
    E.cover("roundtrip")


def roundtrip(E, m):
    sym.begin(E)
    from discopy.quantum.circuit import Circuit
    c = gen_circuit(E, m)
    E.note('circuit', str(c))
    try:
        t = c.to_tk()
    except NotImplementedError:
        E.cover("refused")
        return
    back = Circuit.from_tk(t)
    E.note('back', str(back))
    local = c.init_and_discard().eval(mixed=True).array
    sym.prove_equal(E, back.eval(mixed=True).array
                    if back.is_mixed or True else back.eval().array, local,
                    "C13:from_tk(to_tk):evaluation-differs:" + shape_key(c),
                    info=str(c) + " | " + str(back))
    E.cover("roundtrip")


def imports(E, nq, depth, symbolic=True, small=False):
    """from_tk of raw tket circuits over the supported ops computes the
    reference semantics of that tket circuit"""
    import pytket
    from discopy.quantum.circuit import Circuit
    sym.begin(E)
    validate_reference(E)
    n = E.choice('n', range(1, nq + 1)) if symbolic else nq
    nb = E.choice('nb', [0, 1, 2] if symbolic else [0, 1])
    t = pytket.Circuit(n, nb)
    phase = (lambda d: 2 * sym.sym(E, 'p%d' % d)) if symbolic \
        else (lambda d: [0.6, 0.25, 1.4][d % 3])
    used_bits = set()
    for d in range(depth):
        opts = ['H', 'X', 'Y', 'S', 'T', 'Rx', 'Rz']
        if n >= 2:
            opts += ['CX', 'CZ', 'SWAP', 'CRz']
        if nb:
            opts += ['Measure']
        if small:       # quick tier: a two-qubit gate then a one-qubit op
            opts = ['CX', 'CZ', 'CRz'] if d == 0 else ['H', 'Rx', 'Measure'][
                :3 if nb else 2]
        op = E.choice('op%d' % d, opts)
        if op in ('CX', 'CZ', 'SWAP', 'CRz'):
            a = E.choice('a%d' % d, range(n))
            b = E.choice('b%d' % d, [q for q in range(n) if q != a])
            if op == 'CRz':
                t.CRz(phase(d), a, b)
            else:
                getattr(t, op)(a, b)
        elif op == 'Measure':
            a = E.choice('a%d' % d, range(n))
            b = E.choice('b%d' % d, range(nb))
            t.Measure(a, b)
            used_bits.add(b)
        elif op in ('Rx', 'Rz'):
            a = E.choice('a%d' % d, range(n))
            getattr(t, op)(phase(d), a)
        else:
            a = E.choice('a%d' % d, range(n))
            getattr(t, op)(a)
    E.note('tket', repr(t.get_commands()))
    try:
        c = Circuit.from_tk(t)
    except NotImplementedError:
        E.cover("refused")      # an operation from_tk does not support
        return
    E.note('circuit', str(c))
    got = c.eval(mixed=True).array
    dist = simulate(t)
    vec = np.zeros((2,) * nb or (1,), dtype=object)
    for bits, p in dist.items():
        vec[bits or (0,)] = vec[bits or (0,)] + p
    far = any(len(cmd.qubits) == 2 and abs(
        cmd.qubits[0].index[0] - cmd.qubits[1].index[0]) > 1
        for cmd in t.get_commands())
    key = "C13:from_tk:evaluation-differs" + (":distant-qubits" if far else "")
    if symbolic:
        sym.prove_equal(E, got, vec, key,
                        info=repr(t.get_commands()) + " | " + str(c))
    else:
        from vf.props.c14 import numeric_equal
        numeric_equal(E, list(np.asarray(got, dtype=object).flatten()),
                      list(vec.flatten()), key, [],
                      info=repr(t.get_commands()) + " | " + str(c))
    E.cover("imported")


def export_pool(E):
    """hand-picked wider circuits (3 qubits, multi-qubit Measure, bit
    swaps): export and round trip, numerically (no symbols)"""
    from discopy.quantum import gates as G
    from discopy.quantum.circuit import (Id, Measure, Discard, bit, qubit,
                                         Swap, Circuit)
    sym.begin(E)
    K = G.Ket(0, 0, 0)
    pool = [
        K >> G.X @ Id(2) >> Measure(3) >> Swap(bit, bit) @ Id(bit),
        K >> Id(1) @ G.X @ G.H >> Measure(3) >> Id(bit) @ Swap(bit, bit),
        K >> G.H @ G.X @ Id(1) >> Id(1) @ G.CX >> Measure(3)
        >> Swap(bit, bit) @ Id(bit) >> Id(bit) @ Swap(bit, bit),
        K >> G.X @ Id(2) >> Measure(2) @ Id(1) >> Swap(bit, bit) @ G.H
        >> Id(bit ** 2) @ Measure(),
        K >> G.H @ Id(2) >> G.CX @ G.X >> Id(1) @ G.SWAP >> Measure(3),
        K >> Id(2) @ G.X >> G.Bra(0) @ Measure(2) >> Swap(bit, bit),
        K >> G.X @ G.H @ Id(1) >> Measure(3) >> G.Match() @ Id(bit),
        G.Ket(0, 0) >> G.X @ G.H >> Measure(2, destructive=False)
        >> Discard(qubit ** 2) @ Swap(bit, bit),
    ]
    c = E.choice('circuit', pool)
    E.note('circuit', str(c))
    t = c.to_tk()
    local = c.init_and_discard().eval(mixed=True).array
    sym.prove_equal(E, exported_distribution(t), local,
                    "C13:to_tk:distribution-differs:" + shape_key(c),
                    info=str(c) + " | " + repr(t))
    back = Circuit.from_tk(t)
    sym.prove_equal(E, back.eval(mixed=True).array, local,
                    "C13:from_tk(to_tk):evaluation-differs:" + shape_key(c),
                    info=str(c) + " | " + str(back))
    E.cover("pool")


def backend(E):
    """eval / get_counts through a backend returning exact frequencies agree
    with local evaluation (numeric cross-check, concrete phases)"""
    from discopy.quantum import gates as G
    from discopy.quantum.tk import mockBackend
    from discopy.quantum.circuit import Id, Measure, Discard, bit
    import sympy
    sym.begin(E)
    pool = [G.Ket(0) >> G.Rx(0.3) >> Measure(),
            G.Ket(0, 0) >> G.H @ Id(1) >> G.CX >> Measure(2),
            G.Ket(0, 0) >> G.H @ G.Rx(0.2) >> G.CX >> G.Bra(0) @ Measure(),
            G.Ket(1, 0) >> G.CRz(0.4) >> G.H @ G.H >> Measure() @ Discard(),
            G.Ket(0) >> G.H >> Measure() >> G.ClassicalGate(
                'NOT', 1, 1, [0, 1, 1, 0]),
            G.scalar(0.5) @ G.Ket(0, 0) >> G.H @ G.H >> Measure(2)
            >> G.Match(),
            G.Ket(0) >> G.H >> Measure(1, destructive=False)
            >> G.Rx(0.25) @ Id(bit) >> Measure() @ Id(bit),
            G.Ket(0) >> G.H >> G.S >> G.H >> Measure(),
            G.Ket(0) >> G.H >> G.S.dagger() >> G.Rx(0.25) >> Measure(),
            G.Ket(0) >> G.H >> G.T.dagger() >> G.H >> Measure()]
    c = E.choice('circuit', pool)
    try:
        t = c.to_tk()
    except NotImplementedError:
        E.cover("refused")
        return
    dist = simulate(t)
    nb = len(t.bits)
    counts = {bits: float(sympy.N(p)) for bits, p in dist.items()
              if abs(float(sympy.N(p))) > 1e-12}
    local = np.asarray(c.init_and_discard().eval(mixed=True).array,
                       dtype=complex)
    via = np.asarray(c.eval(mockBackend(counts)).array, dtype=complex)
    E.check(bool(np.allclose(via.flatten(), local.flatten(), atol=1e-9)),
            "C13:backend:eval-differs", info="%s vs %s" % (via.flatten(),
                                                          local.flatten()))
    cnt = c.get_counts(mockBackend(counts))
    loc = c.get_counts()
    keys = set(cnt) | set(loc)
    key = "C13:backend:get_counts-differs"
    if len(t.post_processing.boxes):
        key += ":with-post-processing"
    E.check(all(abs(cnt.get(k, 0) - float(np.asarray(loc.get(k, 0)).flatten()[0]))
                < 1e-9 for k in keys), key, info="%s vs %s" % (cnt, loc))
    # two circuits in one batch: each is scaled by its own scalar
    other = G.scalar(0.5) @ G.Ket(0) >> G.H >> Measure()
    t2 = other.to_tk()
    counts2 = {b: float(sympy.N(p_)) for b, p_ in simulate(t2).items()
               if abs(float(sympy.N(p_))) > 1e-12}
    both = c.get_counts(other, backend=mockBackend(counts, counts2))
    alone = other.get_counts(mockBackend(counts2))
    E.check(all(abs(both[1].get(k, 0) - alone.get(k, 0)) < 1e-9
                for k in set(both[1]) | set(alone)),
            "C13:backend:batched-counts-use-wrong-scalar",
            info="%s vs %s" % (both[1], alone))
    E.cover("backend")


def harnesses(tier):
    q = tier == "quick"
    T = 900 if q else 1200
    m = 2
    hs = [
        H("export", export, dict(m=m), FUNCS, covers=["exported", "roundtrip"],
          engine="SYM (z3 QF_NRA) + reference tket semantics (state vector "
          "with branching on measurement)", bounds="1-2 preparations then %d "
          "layers over {Ket, Bits(0), H, Y, Rx, CRz (symbolic phase), CX, SWAP,"
          " Measure (3 variants), Discard, Bra, scalar, NOT/Copy/Match, bit and"
          " mixed swaps}, <= 2 qubits and <= 2 bits alive" % m,
          outside="real backends, compilation passes, shot noise; pytket "
          "itself is trusted", stubs=["reference tket op matrices validated "
                                      "against pytket Op.get_unitary"],
          timeout_s=T, solver_timeout_ms=20000),
        H("imports", imports, dict(nq=2, depth=2), FUNCS,
          covers=["imported"], engine="SYM (z3 QF_NRA)",
          bounds="raw tket circuits on <= 2 qubits, <= 2 bits, depth %d over "
          "{H,X,Y,S,T,Rx,Rz,CX,CZ,SWAP,CRz (symbolic angles),Measure} on all "
          "qubit pairs" % 2, timeout_s=T,
          solver_timeout_ms=20000),
        H("imports4", imports, dict(nq=4, depth=1, symbolic=False, small=True),
          FUNCS, covers=["imported"], engine="numeric cross-check",
          bounds="raw tket circuits on 4 qubits with one two-qubit gate "
          "(CX, CZ, CRz) on every ordered pair, concrete angle", timeout_s=T),
        H("imports3", imports, dict(nq=3, depth=2, symbolic=False, small=True),
          FUNCS,
          covers=["imported"], engine="numeric cross-check (3-qubit mixed "
          "evaluation on sympy arrays takes minutes per circuit)",
          bounds="raw tket circuits on 3 qubits, <= 1 bit, depth 2, concrete "
          "angles: two-qubit gates on every ordered pair incl. non-adjacent",
          timeout_s=T),
        H("export_pool", export_pool, {}, FUNCS, covers=["pool"],
          engine="numeric (no symbols): DSE choice of 8 fixed circuits",
          bounds="8 circuits on 3 qubits with multi-qubit Measure, bit "
          "swaps, post-selection and classical gates", timeout_s=T),
        H("backend", backend, {}, FUNCS, covers=["backend"],
          engine="numeric cross-check with a stub backend returning the exact "
          "distribution of the reference semantics",
          bounds="10 concrete circuits", stubs=["stub backend: "
                                               "process_circuits -> handles, get_result(h).get_counts() -> dict"],
          timeout_s=T)]
    if not q:
        hs += [
        H("bookkeeping_qubits", export,
          dict(m=4, nmax=2, alphabet=['ket', 'bra0', 'H', 'measure'], start=2),
          FUNCS, covers=["exported", "roundtrip"], engine="SYM + reference "
          "tket semantics", bounds="H(x)H|00> then 4 layers over {Ket(0) at "
          "every position, Bra(0), H, Measure} with <= 2 qubits alive: the "
          "qubit register bookkeeping of to_tk", timeout_s=T,
          solver_timeout_ms=20000),
        H("bookkeeping_bits", export,
          dict(m=4, nmax=2, alphabet=['bits', 'bra1', 'measure'],
               start=3),
          FUNCS, covers=["exported", "roundtrip"], engine="SYM + reference "
          "tket semantics", bounds="H(x)H(x)H|000> then 4 layers over "
          "{Bits(0) at every position, Bra(1), Measure}: the bit "
          "register / post-selection bookkeeping of to_tk", timeout_s=T,
          solver_timeout_ms=20000)]
    return hs
