"""C17 - export to and import from pyzx graphs preserve the ZX diagram."""
import itertools

import numpy as np

from vf.runner import H
from vf.engine import Abort
from vf import sym, zxref, hook
from vf.oracles import welltyped

FUNCS = ["discopy.quantum.zx.Diagram.to_pyzx", "discopy.quantum.zx.Diagram.from_pyzx",
         "discopy.quantum.zx.Diagram.swap", "discopy.monoidal.Diagram.swap"]
STUBS = ["pyzx.Graph bound to an adapter subclass of GraphS (list-valued "
         "callable inputs/outputs, raw phases, set_position, edge_type of a "
         "non-edge = 0) for the duration of the process: vf/pyzx_adapter.py"]


def graph_tensor(g):
    """reference semantics of a pyzx graph (independent of pyzx.tensorfy):
    sum over edge assignments of the product of spider values; phases in
    half-turns (pyzx convention); axes = inputs then outputs."""
    import sympy
    from pyzx import VertexType, EdgeType
    ins, outs = list(g.inputs), list(g.outputs)
    verts = list(g.vertices())
    edges = []
    for e in g.edges():
        s, t = g.edge_st(e)
        edges.append((s, t, g.edge_type(e)))
    # each edge end gets a bit variable; simple edges identify both ends
    nvar = 0
    ends = {}      # (edge index, vertex) -> var
    had = []       # (var a, var b) joined by a Hadamard
    for k, (s, t, ty) in enumerate(edges):
        if ty == EdgeType.HADAMARD:
            ends[(k, s)], ends[(k, t)] = nvar, nvar + 1
            had.append((nvar, nvar + 1))
            nvar += 2
        else:
            ends[(k, s)] = ends[(k, t)] = nvar
            nvar += 1
    legs = {v: [ends[(k, v)] for k, (s, t, _) in enumerate(edges)
                if v in (s, t)] for v in verts}
    boundary = ins + outs
    bvars = []
    for v in boundary:
        if len(legs[v]) != 1:
            raise ValueError("boundary vertex of degree %d" % len(legs[v]))
        bvars.append(legs[v][0])
    shape = (2,) * len(boundary)
    T = np.zeros(shape or (1,), dtype=object)
    h = 1 / sympy.sqrt(2)
    spiders = [v for v in verts if v not in boundary]
    phases = {v: sympy.exp(sympy.I * sympy.pi * sympy.sympify(g.phase(v)))
              if g.phase(v) != 0 else 1 for v in spiders}
    for assign in itertools.product((0, 1), repeat=nvar):
        val = 1
        for a, b in had:
            val = val * (h if not (assign[a] and assign[b]) else -h)
        for v in spiders:
            ls = [assign[x] for x in legs[v]]
            if g.type(v) == VertexType.Z:
                if all(x == 0 for x in ls):
                    f = 1
                elif all(x == 1 for x in ls):
                    f = phases[v]
                else:
                    f = 0
                if not ls:
                    f = 1 + phases[v]
            elif g.type(v) == VertexType.X:
                k = len(ls)
                norm = sympy.Rational(1, 2) ** (k // 2) * (h if k % 2 else 1)
                f = norm * (1 + (-1) ** sum(ls) * phases[v])
            else:
                raise NotImplementedError("vertex type")
            if f == 0:
                val = 0
                break
            val = val * f
        if val == 0:
            continue
        idx = tuple(assign[x] for x in bvars)
        T[idx or (0,)] = T[idx or (0,)] + val
    sc = g.scalar.to_number() if hasattr(g, 'scalar') else 1
    if sc != 1:
        sc = sympy.nsimplify(complex(sc), [sympy.sqrt(2)], tolerance=1e-12,
                             rational=False)
        for i in np.ndindex(T.shape):
            T[i] = T[i] * sc
    return T


def validate_against_pyzx(g, T):
    """at concrete phases the reference agrees with pyzx.tensorfy"""
    import pyzx
    import sympy
    from fractions import Fraction
    try:
        for v in g.vertices():
            ph = g.phase(v)
            if not isinstance(ph, (int, Fraction)):
                g._phase[v] = Fraction(float(ph)).limit_denominator(64)
        t = np.asarray(pyzx.tensorfy(g, preserve_scalar=True)).flatten()
    except Exception as e:            # pyzx cannot handle it: nothing to say
        return True
    # pyzx orders tensor axes outputs first, then inputs
    n_in, n_out = len(g.inputs), len(g.outputs)
    Tt = np.transpose(T.reshape((2,) * (n_in + n_out) or (1,)),
                      list(range(n_in, n_in + n_out)) + list(range(n_in))) \
        if n_in + n_out else T
    ref = np.array([complex(sympy.N(x)) for x in Tt.flatten()])
    return bool(np.allclose(t, ref, atol=1e-8))


def is_simple(d):
    """spiders pairwise joined by at most one wire (multigraph check done on
    the diagram, independently of to_pyzx)"""
    from discopy.quantum import zx
    scan = [('in', i) for i in range(len(d.dom))]
    pairs = set()
    for k, (box, off) in enumerate(zip(d.boxes, d.offsets)):
        if isinstance(box, zx.Spider):
            srcs = scan[off:off + len(box.dom)]
            for s in srcs:
                key = (s, ('s', k))
                if key in pairs:
                    return False
                pairs.add(key)
            scan = scan[:off] + [('s', k)] * len(box.cod) \
                + scan[off + len(box.dom):]
        elif isinstance(box, zx.Swap):
            scan[off], scan[off + 1] = scan[off + 1], scan[off]
    outs = {}
    for i, s in enumerate(scan):
        if s[0] == 'in' and False:
            return False
    return True


def gen_zx(E, k, w, nsym, dmax=2, kinds=None):
    from discopy.quantum import zx
    n = E.choice('dom', range(0, min(w, dmax) + 1))
    d = zx.Id(n)
    syms = []
    for i in range(k):
        scan = len(d.cod)
        kind = E.choice('kind%d' % i, kinds or ['Z', 'X', 'H', 'SWAP',
                                                  'scalar'])
        if kind in ('Z', 'X'):
            m = E.choice('m%d' % i, range(0, min(2, scan) + 1)
                         if kinds is None else [2])
            o = E.choice('o%d' % i, range(0, 3) if kinds is None else [1])
            if scan - m + o > w:
                raise Abort()
            ph = E.choice('ph%d' % i, ['sym', 'zero', 'quarter'])
            if ph == 'sym':
                phase = sym.sym(E, 'p%d' % i)
            else:
                phase = 0 if ph == 'zero' else 0.25
            b = getattr(zx, kind)(m, o, phase)
        elif kind == 'H':
            if scan < 1:
                raise Abort()
            b = zx.H
        elif kind == 'SWAP':
            if scan < 2:
                raise Abort()
            b = zx.SWAP
        else:
            b = zx.scalar(E.choice('sc%d' % i, [0.5, 2j, -1]))
        off = E.choice('off%d' % i, range(scan - len(b.dom) + 1))
        d = d >> zx.Id(off) @ b @ zx.Id(scan - off - len(b.dom))
    return d


def export(E, k, w):
    from vf import pyzx_adapter
    from discopy.quantum import zx
    pyzx_adapter.install()
    sym.begin(E)
    d = gen_zx(E, k, w, 2)
    if not is_simple(d):
        raise Abort()
    E.note('diagram', str(d))
    g = d.to_pyzx()
    E.check(len(g.inputs) == len(d.dom) and len(g.outputs) == len(d.cod),
            "C17:to_pyzx:boundary-count")
    try:
        T = graph_tensor(g)
    except ValueError:
        # a boundary joined to several things: non-simple after all
        raise Abort()
    A = zxref.interpret(d).array
    sym.prove_equal(E, T, A, "C17:to_pyzx:graph-denotes-different-matrix",
                    info=str(d))
    if not d.free_symbols:
        E.check(validate_against_pyzx(g, T),
                "harness:reference-graph-semantics-vs-pyzx")
    E.cover("exported")


def roundtrip(E, k, w, dmax=2, kinds=None):
    from vf import pyzx_adapter
    from discopy.quantum import zx
    pyzx_adapter.install()
    sym.begin(E)
    d = gen_zx(E, k, w, 2, dmax, kinds)
    if not is_simple(d):
        raise Abort()
    E.note('diagram', str(d))
    g = d.to_pyzx()
    try:
        T = graph_tensor(g)
    except ValueError:
        raise Abort()
    back = zx.Diagram.from_pyzx(g)
    E.note('back', str(back))
    E.check(welltyped(back), "C17:from_pyzx:illtyped", info=str(back))
    E.check(len(back.dom) == len(d.dom) and len(back.cod) == len(d.cod),
            "C17:from_pyzx:boundary-count", info=str(back))
    noscalar = [b for b in d.boxes if not isinstance(b, zx.Scalar)]
    # same matrix up to the scalar boxes, which graphs do not carry back
    B = zxref.interpret(back).array
    ds = d
    for b in d.boxes:
        pass
    A = zxref.interpret(zx.Diagram(
        d.dom, d.cod, *zip(*[(b, o) for b, o in zip(d.boxes, d.offsets)
                             if not isinstance(b, zx.Scalar)]))
        if noscalar else zx.Id(len(d.dom))).array \
        if len(noscalar) != len(d.boxes) else zxref.interpret(d).array
    sym.prove_equal(E, B, A, "C17:from_pyzx(to_pyzx):different-matrix",
                    info="%s | %s" % (d, back))
    E.cover("roundtrip")


def raw_graphs(E, nsp, nb, nb_in=1, bad=False):
    """from_pyzx on solver-chosen simple graphs"""
    from vf import pyzx_adapter
    from discopy.quantum import zx
    import pyzx
    from pyzx import VertexType, EdgeType
    pyzx_adapter.install()
    sym.begin(E)
    n_in = E.choice('n_in', range(0, nb_in + 1))
    n_out = E.choice('n_out', range(0, nb + 1))
    ns = E.choice('ns', range(1, nsp + 1))
    order = E.choice('order', ['inputs-first', 'spiders-first'])
    g = pyzx.Graph()
    ins, outs, sp = [], [], []
    def add_spiders():
        for i in range(ns):
            ty = E.choice('ty%d' % i, [VertexType.Z, VertexType.X]) \
                if i == 0 else VertexType.Z
            from fractions import Fraction
            sp.append(g.add_vertex(ty, phase=2 * sym.sym(E, 'p%d' % i)
                                   if i == 0 else Fraction(1, 2)))
    def add_ins():
        for i in range(n_in):
            ins.append(g.add_vertex(VertexType.BOUNDARY))
    if order == 'inputs-first':
        add_ins()
        add_spiders()
    else:
        add_spiders()
        add_ins()
    for i in range(n_out):
        outs.append(g.add_vertex(VertexType.BOUNDARY))
    # every boundary attached to one spider, solver-chosen, simple graph
    used = set()
    for i, b in enumerate(ins + outs):
        s = E.choice('att%d' % i, sp)
        if (b, s) in used:
            raise Abort()
        used.add((b, s))
        g.add_edge((b, s), E.choice('et%d' % i, [EdgeType.SIMPLE,
                                                 EdgeType.HADAMARD]))
    for a, b in itertools.combinations(sp, 2):
        e = E.choice('e%d_%d' % (a, b), ['none', 'simple', 'had'])
        if e != 'none':
            g.add_edge((a, b), EdgeType.SIMPLE if e == 'simple'
                       else EdgeType.HADAMARD)
    declared = E.choice('declared', ['missing', 'shared']) if bad else 'ok'
    g.set_inputs(ins)
    g.set_outputs(outs)
    if declared == 'missing':
        if not (ins or outs):
            raise Abort()
        if ins:
            g.set_inputs(ins[1:])
        else:
            g.set_outputs(outs[1:])
    elif declared == 'shared':
        if not ins:
            raise Abort()
        g.set_outputs(outs + [ins[0]])
    try:
        d = zx.Diagram.from_pyzx(g)
    except ValueError:
        E.cover("refused")
        E.check(declared != 'ok', "C17:from_pyzx:refused-valid-graph")
        return
    E.check(declared == 'ok', "C17:from_pyzx:accepted-bad-boundary:" + declared)
    E.note('diagram', str(d))
    E.check(welltyped(d), "C17:from_pyzx:illtyped", info=str(d))
    E.check(len(d.dom) == n_in and len(d.cod) == n_out,
            "C17:from_pyzx:boundary-count", info=str(d))
    T = graph_tensor(g)
    sym.prove_equal(E, zxref.interpret(d).array, T,
                    "C17:from_pyzx:different-matrix", prop=True, info=str(d))
    E.cover("imported")


def harnesses(tier):
    q = tier == "quick"
    T = 900 if q else 1200
    k, w = (2, 3) if q else (2, 4)
    return [
        H("export", export, dict(k=k, w=w), FUNCS, covers=["exported"],
          stubs=STUBS, engine="SYM (z3 QF_NRA) + reference graph semantics",
          bounds="ZX diagrams of %d boxes over Z/X spiders (arity <= 2+2, "
          "phase symbolic / 0 / 1/4), H, SWAP, numeric scalars, width <= %d, "
          "simple underlying graph" % (k, w),
          outside="non-simple graphs; pyzx's own algorithms", timeout_s=T),
        H("roundtrip", roundtrip, dict(k=k, w=w, dmax=2), FUNCS,
          covers=["roundtrip"],
          stubs=STUBS, engine="SYM (z3 QF_NRA)",
          bounds="same diagrams as export", timeout_s=T),
        H("roundtrip_wide", roundtrip,
          dict(k=3, w=3, dmax=3, kinds=['X', 'H', 'SWAP']), FUNCS,
          covers=["roundtrip"], stubs=STUBS, engine="SYM (z3 QF_NRA)",
          bounds="3 input wires then 3 boxes over {X(2,1,phase), H, SWAP}: "
          "spiders whose input wires have to be moved next to each other",
          timeout_s=T),
        H("bad_boundaries", raw_graphs, dict(nsp=1, nb=1, nb_in=1, bad=True),
          FUNCS, covers=["refused"], stubs=STUBS, engine="DSE-chosen graphs",
          bounds="graphs of one spider, <= 1 input, <= 1 output, with a "
          "boundary vertex missing from or shared between inputs/outputs",
          timeout_s=T),
        H("raw_graphs", raw_graphs, dict(nsp=2, nb=2 if q else 3,
                                         nb_in=1 if q else 2), FUNCS,
          covers=["imported"], stubs=STUBS,
          engine="SYM (z3 QF_NRA) + DSE-chosen graphs",
          bounds="simple graphs of <= 2 spiders (first Z/X with symbolic phase, second Z with phase 1/4)"
          ", <= %d inputs and outputs attached by simple or Hadamard edges, "
          "spider-spider edges none/simple/Hadamard, vertex numbering inputs-"
          "first or spiders-first, boundaries declared / missing / shared"
          % (2 if q else 3), timeout_s=T)]
