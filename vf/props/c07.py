"""C07 - snake removal is sound for rigid diagrams."""
import numpy as np

from vf.runner import H
from vf.engine import Abort
from vf import sym, hook
from vf.oracles import welltyped
from vf.props.c09 import Interp, prod
from vf.props.c06 import connected

FUNCS = ["discopy.rewriting.snake_removal", "discopy.rewriting.interchange",
         "discopy.rewriting.normalize", "discopy.rigid.Cup.__init__",
         "discopy.rigid.Cap.__init__", "discopy.rigid.Diagram.normal_form",
         "discopy.tensor.Functor.__call__"]


def gen_snaky(E, k, w, daggers):
    """rigid diagrams from caps, cups (also daggered ones), 1->1 boxes and
    states/effects at solver-chosen offsets"""
    from discopy import rigid
    Ty, Ob, Id = rigid.Ty, rigid.Ob, rigid.Id
    x = Ty('x')
    dom = E.choice('dom', [Ty(), x, x.r, x @ x.r] if w >= 2 else [Ty(), x])
    d = Id(dom)
    nbox = 0
    boxes = []
    pairs = [(x, x.l), (x.r, x), (x, x.r), (x.l, x), (x.r, x.r.r),
             (x.l.l, x.l)]
    for i in range(k):
        scan = d.cod
        opts = []
        if len(scan) + 2 <= w:
            for off in range(len(scan) + 1):
                for pi in range(len(pairs) if daggers else 2):
                    opts.append(('cap', off, pi))
        for off in range(len(scan) - 1):
            l, r = scan[off:off + 1], scan[off + 1:off + 2]
            if l.r == r or l == r.r:
                opts.append(('cup', off, 0))
        for off in range(len(scan)):
            opts.append(('box', off, 0))
        if len(scan) + 1 <= w:
            opts.append(('state', len(scan), 0))
        if not opts:
            raise Abort()
        kind, off, pi = E.choice('op%d' % i, opts)
        if kind == 'cap':
            l, r = pairs[pi]
            try:
                b = rigid.Cap(l, r)
            except Exception:
                raise Abort()
            if daggers and pi >= 2 and E.choice('dag%d' % i, [False, True]):
                b = rigid.Cup(l, r).dagger() if (l.r == r or l == r.r) else b
        elif kind == 'cup':
            b = rigid.Cup(scan[off:off + 1], scan[off + 1:off + 2])
        elif kind == 'box':
            t = scan[off:off + 1]
            b = rigid.Box('f%d' % nbox, t, t)
            nbox += 1
            boxes.append(b)
        else:
            b = rigid.Box('s%d' % nbox, Ty(), x)
            nbox += 1
            boxes.append(b)
        d = d >> Id(scan[:off]) @ b @ Id(scan[off + len(b.dom):])
    return d, boxes


def residual_snake(d):
    """a cap whose leg runs straight (identity wires only) into the opposite
    leg of a cup: independent scan"""
    from discopy import rigid
    n = len(d.boxes)
    for ci in range(n):
        if not isinstance(d.boxes[ci], rigid.Cap):
            continue
        for leg in (0, 1):
            j = d.offsets[ci] + leg
            for k2 in range(ci + 1, n):
                b, off = d.boxes[k2], d.offsets[k2]
                if off <= j < off + len(b.dom):
                    if isinstance(b, rigid.Cup) and (j - off) == 1 - leg:
                        # matching: the wire that would be straightened has
                        # the same type above the cup and below the cap
                        cap = d.boxes[ci]
                        above = b.dom[0:1] if leg == 0 else b.dom[1:2]
                        below = cap.cod[1:2] if leg == 0 else cap.cod[0:1]
                        if above == below:
                            return (ci, k2)
                    break
                if off <= j:
                    j += len(b.cod) - len(b.dom)
    return None


def soundness(E, k, w, daggers, semantic):
    from discopy import rigid, tensor, monoidal
    from discopy.rewriting import InterchangerError
    from discopy.cat import AxiomError
    hook.enable(True)
    try:
        sym.begin(E)
        d, boxes = gen_snaky(E, k, w, daggers)
        E.note('diagram', str(d))
        conn = connected(d)
        left = E.choice('left', [False, True])
        steps = []
        try:
            for s in d.normalize(left=left):
                steps.append(s)
                if len(steps) > 6 * (k + 2) ** 3:
                    break
            nf = d.normal_form(left=left)
        except NotImplementedError:
            E.cover("refused")
            E.check(not conn, "C07:normal_form:refused-connected-diagram",
                    info=str(d))
            return
        except (InterchangerError, AxiomError, IndexError) as e:
            E.fail("C07:normalize:raises-%s" % type(e).__name__, info=str(d))
            return
        for s in steps + [nf]:
            E.check(bool(s.dom == d.dom) and bool(s.cod == d.cod),
                    "C07:step:dom-cod-changed", info=str(d))
            E.check(welltyped(s), "C07:step:illtyped", info=str(d))
        if steps:
            E.check(bool(steps[-1] == nf), "C07:normal_form:not-last-step")
        E.check(residual_snake(nf) is None, "C07:normal_form:residual-snake",
                info="%s -> %s" % (d, nf))
        # only cups/caps are ever removed; boxes are kept
        names = sorted(b.name for b in d.boxes if not isinstance(
            b, (rigid.Cup, rigid.Cap)))
        for s in steps + [nf]:
            E.check(sorted(b.name for b in s.boxes if not isinstance(
                b, (rigid.Cup, rigid.Cap))) == names,
                "C07:step:boxes-changed", info=str(d))
        n_cc = lambda t: sum(isinstance(b, (rigid.Cup, rigid.Cap))
                             for b in t.boxes)
        E.check(all(n_cc(s) <= n_cc(d) and (n_cc(d) - n_cc(s)) % 2 == 0
                    for s in steps + [nf]), "C07:step:cup-cap-count")
        if semantic:
            # the same morphism under a rigid functor into tensors, for all
            # box interpretations (dimension 2)
            I = Interp({'x': 2}, {})
            arrays = {b.name: sym.carr(E, b.name,
                                       (2,) * (len(b.dom) + len(b.cod)))
                      for b in boxes}
            I.arrays = arrays
            if prod(I.ty(d.dom)) * 2 ** max(len(l.cod) for l in
                                            d.layers.boxes or [d]) > 512:
                raise Abort()
            F = tensor.Functor(ob={rigid.Ty('x'): 2},
                               ar=lambda f: arrays[f.name])
            ref = np.asarray(F(d).array, dtype=object)
            for s in ([steps[i] for i in range(0, len(steps), max(
                    1, len(steps) // 3))] + [nf]) if steps else [nf]:
                sym.prove_equal(E, np.asarray(F(s).array, dtype=object), ref,
                                "C07:step:denotation-changed", info=str(d))
        E.cover("normalised")
        if len(nf) < len(d):
            E.cover("snake-removed")
    finally:
        hook.enable(False)


def harnesses(tier):
    q = tier == "quick"
    T = 600 if q else 900
    hs = []
    k, w = (4, 3) if q else (4, 4)
    hs.append(H("soundness", soundness,
                dict(k=k, w=w, daggers=False, semantic=True), FUNCS,
                covers=["normalised", "snake-removed", "refused"],
                engine="DSE (shapes) + SYM (z3 QF_NRA) for the denotation",
                bounds="rigid diagrams of %d layers from {Cap(x, x.l), "
                "Cap(x.r, x), Cup wherever two adjacent wires are adjoint, "
                "1->1 boxes on any wire, states}, width <= %d; denotation "
                "under tensor.Functor with dim 2 and generic box arrays"
                % (k, w), outside="dimension != 2; deeper diagrams",
                timeout_s=T))
    if not q:
        hs.append(H("deeper", soundness,
                    dict(k=5, w=3, daggers=False, semantic=False), FUNCS,
                    covers=["normalised", "snake-removed"],
                    engine="DSE (shapes)", bounds="5 layers, width <= 3, "
                    "structural checks only", timeout_s=T))
    k, w = (3, 3) if q else (4, 3)
    hs.append(H("adjoint_types", soundness,
                dict(k=k, w=w, daggers=True, semantic=False), FUNCS,
                covers=["normalised"], engine="DSE (shapes)",
                bounds="%d layers, caps over 6 adjoint pairs with winding "
                "numbers in [-2, 2] (also as daggered cups), width <= %d; "
                "structural checks only" % (k, w), timeout_s=T))
    return hs
