"""C01 - every diagram the library hands back is well-typed."""
from vf.runner import H
from vf.engine import AND, OR, NOT, Abort
from vf import symty, gen, hook
from vf.symty import symlen
from vf.oracles import welltyped, welltyped_arrow, teq

FUNCS_CORE = [
    "discopy.cat.Arrow.__init__", "discopy.cat.Arrow.then",
    "discopy.cat.Arrow.__getitem__", "discopy.monoidal.Diagram.__init__",
    "discopy.monoidal.Diagram.then", "discopy.monoidal.Diagram.tensor",
    "discopy.monoidal.Diagram.__getitem__", "discopy.monoidal.Layer.__init__",
    "discopy.monoidal.Layer.__getitem__"]
STUBS_B = ["Mode B: monoidal.Ty replaced by the bounded array model SymTy "
           "(vf/symty.py); `len`/`isinstance` shadowed in the module globals "
           "of discopy.cat/monoidal/rewriting in the worker process"]


def ctorB(E, k, N):
    """real scanning constructor on arbitrary inputs: accepted <=> well-typed"""
    from discopy.monoidal import Diagram
    from discopy.cat import AxiomError
    symty.setN(N)
    dom, cod, boxes, offs = gen.modeb_inputs(E, k, N)
    ok = gen.inputs_welltyped(dom, cod, boxes, offs)
    try:
        d = Diagram(dom, cod, boxes, offs)
    except AxiomError:
        E.cover("refused")
        E.check(NOT(ok), "C01:ctor:refused-welltyped")
        return
    E.cover("accepted")
    E.check(ok, "C01:ctor:accepted-but-illtyped")
    E.check(welltyped(d), "C01:ctor:layers-disagree")


def _slice_arg(E, name, k):
    kind = E.choice(name + '_kind', ['none', 'int'])
    if kind == 'none':
        return None
    return E.int(name, -k - 1, k + 1)


def opsB(E, op, ka, kb, N):
    """operations on arbitrary well-typed diagrams, widths symbolic"""
    from discopy.monoidal import Diagram
    from discopy.cat import AxiomError
    from discopy.rewriting import InterchangerError
    symty.setN(N)
    a = gen.modeb_diagram(E, ka, N, 'a')
    if op in ('then', 'tensor'):
        b = gen.modeb_diagram(E, kb, N, 'b')
    if op == 'then':
        comp = teq(a.cod, b.dom)
        try:
            r = a >> b
        except AxiomError:
            E.cover("refused")
            E.check(NOT(comp), "C01:then:refused-composable")
            return
        E.cover("accepted")
        E.check(comp, "C01:then:accepted-noncomposable")
        E.check(AND(teq(r.dom, a.dom), teq(r.cod, b.cod)),
                "C01:then:wrong-dom-cod")
    elif op == 'tensor':
        r = a @ b
        E.cover("accepted")
        E.check(AND(teq(r.dom, a.dom @ b.dom), teq(r.cod, a.cod @ b.cod)),
                "C01:tensor:wrong-dom-cod")
    elif op == 'slice':
        i, j = _slice_arg(E, 'i', ka), _slice_arg(E, 'j', ka)
        step = E.choice('step', [None, 1, -1])
        r = a[i:j:step]
        E.cover("step%s" % step)
        sel = list(range(ka))[slice(
            None if i is None else int(i), None if j is None else int(j),
            step)]
        E.check(len(r.boxes) == len(sel), "C01:slice:wrong-boxes")
        if sel and len(sel) < ka:
            E.cover("proper-subset")
        key = "C01:slice:reversed-partial" if step == -1 and len(sel) < ka \
            else "C01:slice:illtyped"
        E.check(welltyped(r), key)
        return
    elif op == 'index':
        i = E.int('i', -ka - 1, ka)
        try:
            r = a[i]
        except IndexError:
            E.cover("refused")
            E.check(OR(i >= ka, i < -ka), "C01:index:refused-valid")
            return
        E.cover("accepted")
    elif op == 'interchange':
        i, j = E.int('i', -1, ka), E.int('j', -1, ka)
        left = E.choice('left', [False, True])
        try:
            r = a.interchange(i, j, left=left)
        except InterchangerError:
            E.cover("refused")
            return
        except IndexError:
            E.cover("indexerror")
            E.check(OR(i < 0, i >= ka, j < 0, j >= ka),
                    "C01:interchange:indexerror-in-range")
            return
        E.cover("accepted")
        E.check(AND(teq(r.dom, a.dom), teq(r.cod, a.cod)),
                "C01:interchange:wrong-dom-cod")
    elif op == 'normalize':
        left = E.choice('left', [False, True])
        n = 0
        for r in a.normalize(left=left):
            n += 1
            E.check(welltyped(r), "C01:normalize:illtyped-step")
            if n >= 3:
                break
        E.cover("steps%d" % min(n, 1))
        return
    E.check(welltyped(r), "C01:%s:illtyped" % op)


# ------------------------------------------------------------------ Mode A

def _kit(cls):
    if cls == 'monoidal':
        from discopy import monoidal
        return monoidal
    if cls == 'rigid':
        from discopy import rigid
        return rigid
    raise ValueError(cls)


def opsA(E, cls, op, k, w, a, L):
    """public-API operations in a free diagram class, labels symbolic,
    shapes solver-chosen; every intermediate diagram is re-scanned (hook)"""
    from discopy import monoidal, rigid, cat
    from discopy.rewriting import InterchangerError
    kit = _kit(cls)
    hook.enable(True)
    if cls == 'rigid':
        L = [rigid.Ob('a'), rigid.Ob('a', 1), rigid.Ob('b', -1)][:L + 1]
    try:
        d = gen.modea_diagram(E, 'a', k, w, a, L, kit)
        E.check(welltyped(d), "C01:build:illtyped")
        out = []
        if op == 'dagger':
            out.append(d[::-1])
            out.append(d.dagger().dagger())
        elif op == 'slices':
            i = E.choice('i', [None] + list(range(-k - 1, k + 2)))
            j = E.choice('j', [None] + list(range(-k - 1, k + 2)))
            step = E.choice('step', [None, -1])
            out.append(d[i:j:step])
        elif op == 'interchange':
            i = E.choice('i', range(k))
            j = E.choice('j', range(k))
            left = E.choice('left', [False, True])
            try:
                out.append(d.interchange(i, j, left=left))
            except InterchangerError:
                E.cover("refused")
        elif op == 'normal_form':
            left = E.choice('left', [False, True])
            try:
                if cls == 'rigid':
                    for r in monoidal.Diagram.normalize(d, left=left):
                        out.append(r)
                        if len(out) > 20:
                            break
                else:
                    out.append(d.normal_form(left=left))
                    out.extend(d.normalize(left=left))
            except NotImplementedError:
                E.cover("refused")
        elif op == 'foliation':
            out.append(d.foliation())
            out.append(d.flatten())
            out.append(d.foliation().flatten())
            ys = list(d.foliate(yield_slices=True))
            out.extend(y for y in ys[:-1])
            out.extend(ys[-1] if ys else [])
            E.check(d.depth() == len(ys[-1]), "C01:depth:mismatch")
        elif op == 'functor':
            # relabelling functor: objects to types of length 0..2
            img = {}
            for lab in (range(L) if isinstance(L, int) else 'ab'):
                n = E.choice('img%s' % lab, [1, 0, 2])
                img[lab] = kit.Ty(*['i%s_%d' % (lab, t) for t in range(n)])

            def ob(t):
                nm = t[0].name
                return img[nm if isinstance(nm, str) else int(nm)]

            def ar(f):
                return kit.Box(f.name, F(f.dom), F(f.cod))
            F = kit.Functor(ob, ar)
            out.append(F(d))
        elif op == 'tensor_then':
            e = gen.modea_diagram(E, 'b', 1, w, a, L, kit)
            out.append(d @ e)
            out.append(e @ d)
            if bool(teq(d.cod, e.dom) if isinstance(teq(d.cod, e.dom), bool)
                    else teq(d.cod, e.dom)):
                out.append(d >> e)
                E.cover("composable")
            else:
                try:
                    d >> e
                    E.fail("C01:then:accepted-noncomposable")
                except cat.AxiomError:
                    E.cover("refused")
        for r in out:
            E.check(welltyped(r), "C01:%s:%s:illtyped" % (cls, op))
        if out:
            E.cover("returned")
    finally:
        hook.enable(False)


ALPHA_Q = [('a', 0), ('a', 1), ('b', -1)]
ALPHA_T = [(n, z) for n in 'ab' for z in (0, 1, -1, 2)]


def rigidA(E, op, w, L, alpha=None):
    """rigid structure: cups, caps, transposes, swaps, curry, fa/ba/..."""
    from discopy import rigid, cat
    hook.enable(True)
    try:
        alpha = alpha or ALPHA_Q

        def ty(name, minw=0):
            n = E.choice(name + '_w', range(minw, w + 1))
            return rigid.Ty(*[rigid.Ob(*E.choice('%s_o%d' % (name, i), alpha))
                              for i in range(n)])
        out = []
        if op in ('cups', 'caps'):
            t = ty('t')
            side = E.choice('side', ['l', 'r', 'bad'])
            other = t.l if side == 'l' else t.r if side == 'r' else ty('u')
            fn = rigid.Diagram.cups if op == 'cups' else rigid.Diagram.caps
            args = (t, other) if side != 'l' else (other, t)
            legal = (args[0].r == args[1]) or (args[1].r == args[0])
            try:
                r = fn(*args)
            except cat.AxiomError:
                E.cover("refused")
                E.check(not legal, "C01:%s:refused-adjoints" % op)
                return
            E.check(legal, "C01:%s:accepted-nonadjoint" % op)
            exp_dom, exp_cod = (args[0] @ args[1], rigid.Ty()) \
                if op == 'cups' else (rigid.Ty(), args[0] @ args[1])
            E.check(r.dom == exp_dom and r.cod == exp_cod,
                    "C01:%s:wrong-dom-cod" % op)
            out.append(r)
        elif op == 'transpose':
            dom, cod = ty('d'), ty('c')
            f = rigid.Box('f', dom, cod)
            left = E.choice('left', [False, True])
            r = f.transpose(left=left)
            exp = (cod.l, dom.l) if left else (cod.r, dom.r)
            E.check((r.dom, r.cod) == exp, "C01:transpose:wrong-dom-cod")
            out.append(r)
            out.append(r.normal_form())
        elif op == 'swap':
            l, r_ = ty('l'), ty('r')
            r = rigid.Diagram.swap(l, r_)
            E.check((r.dom, r.cod) == (l @ r_, r_ @ l),
                    "C01:swap:wrong-dom-cod")
            out.append(r)
        elif op == 'curry':
            dom, cod = ty('d', 1), ty('c')
            f = rigid.Box('f', dom, cod)
            n = E.choice('n', range(1, len(dom) + 1))
            left = E.choice('left', [False, True])
            r = rigid.Diagram.curry(f, n_wires=n, left=left)
            out.append(r)
        elif op == 'fafb':
            x, y, z = ty('x', 1), ty('y', 1), ty('z', 1)
            which = E.choice('which', ['fa', 'ba', 'fc', 'bc', 'fx', 'bx'])
            D = rigid.Diagram
            if which == 'fa':
                r = D.fa(x << y, y)
            elif which == 'ba':
                r = D.ba(x, x >> y)
            elif which == 'fc':
                r = D.fc(x, y, z)
            elif which == 'bc':
                r = D.bc(x, y, z)
            elif which == 'fx':
                r = D.fx(x, y, z)
            else:
                r = D.bx(x, y, z)
            out.append(r)
        for r in out:
            E.check(welltyped(r), "C01:rigid:%s:illtyped" % op)
            E.cover("returned")
    finally:
        hook.enable(False)


def catA(E, op, k, L):
    """cat.Arrow: constructor scan, then, slices"""
    from discopy import cat
    obs = [cat.Ob(E.int('x%d' % i, 0, L - 1)) for i in range(k + 1)]
    if op == 'ctor':
        # arbitrary boxes: accepted <=> composable
        boxes = [cat.Box('f%d' % i, cat.Ob(E.int('d%d' % i, 0, L - 1)),
                         cat.Ob(E.int('c%d' % i, 0, L - 1)))
                 for i in range(k)]
        dom, cod = obs[0], obs[1]
        conds, scan = [], dom
        for b in boxes:
            conds.append(teq(b.dom, scan))
            scan = b.cod
        conds.append(teq(scan, cod))
        ok = AND(*conds)
        try:
            cat.Arrow(dom, cod, boxes)
        except cat.AxiomError:
            E.cover("refused")
            E.check(NOT(ok), "C01:cat:ctor:refused-welltyped")
            return
        E.cover("accepted")
        E.check(ok, "C01:cat:ctor:accepted-illtyped")
        return
    boxes = [cat.Box('f%d' % i, obs[i], obs[i + 1]) for i in range(k)]
    d = cat.Id(obs[0]).then(*boxes)
    i = E.choice('i', [None] + list(range(-k - 1, k + 2)))
    j = E.choice('j', [None] + list(range(-k - 1, k + 2)))
    step = E.choice('step', [None, -1])
    r = d[i:j:step]
    sel = list(range(k))[i:j:step]
    E.check(len(r.boxes) == len(sel), "C01:cat:slice:wrong-boxes")
    key = "C01:slice:reversed-partial" if step == -1 and len(sel) < k \
        else "C01:cat:slice:illtyped"
    E.check(welltyped_arrow(r), key)
    E.cover("step%s" % step)


def sums_illtyped(E, cls, L):
    """composing formal sums (also empty ones) of non-composable types is
    refused"""
    from discopy import cat, monoidal
    kit = {'cat': cat, 'monoidal': monoidal}[cls]
    if cls == 'cat':
        x, y, z, w = (cat.Ob(E.int(n, 0, L - 1)) for n in 'xyzw')
        S = cat.Sum
    else:
        x, y, z, w = (monoidal.Ty(E.int(n, 0, L - 1)) for n in 'xyzw')
        S = monoidal.Sum
    f, g = kit.Box('f', x, y), kit.Box('g', z, w)
    n1, n2 = E.choice('n1', [0, 1, 2]), E.choice('n2', [0, 1, 2])
    a, b = S([f] * n1, x, y), S([g] * n2, z, w)
    comp = teq(y, z)
    try:
        r = a >> b
    except cat.AxiomError:
        E.cover("refused")
        E.check(NOT(comp), "C01:sum:then:refused-composable")
        return
    E.cover("accepted")
    E.check(comp, "C01:sum:then:accepted-noncomposable",
            info="%d and %d terms" % (n1, n2))
    E.check(AND(teq(r.dom, x), teq(r.cod, w)), "C01:sum:then:dom-cod")


def harnesses(tier):
    q = tier == "quick"
    hs = []
    for cls in ('cat', 'monoidal'):
        hs.append(H("sums_illtyped_" + cls, sums_illtyped, dict(cls=cls, L=2),
                    ["discopy.cat.Sum.then", "discopy.cat.Sum.__init__"],
                    covers=["refused", "accepted"],
                    bounds="sums of 0-2 copies of a box, symbolic labels",
                    timeout_s=600))
    N = 4 if q else 6
    T = 600 if q else 900
    for k in ([1, 2] if q else [1, 2, 3]):
        hs.append(H("ctorB_k%d" % k, ctorB, dict(k=k, N=N), FUNCS_CORE,
                    covers=["accepted", "refused"], modeb=True, stubs=STUBS_B,
                    bounds="Mode B: %d boxes, widths <= %d (symbolic), labels,"
                    " arities and offsets unconstrained integers" % (k, N),
                    outside="types wider than %d; more boxes" % N,
                    timeout_s=T))
    if q:
        opsb = [('then', 1, 1, 4), ('tensor', 1, 1, 4), ('slice', 2, 0, 3),
                ('index', 2, 0, 3), ('interchange', 2, 0, 4),
                ('normalize', 2, 0, 3)]
    else:
        opsb = [('then', 1, 1, 6), ('then', 2, 1, 5), ('tensor', 1, 1, 6),
                ('tensor', 1, 2, 5), ('slice', 2, 0, 4), ('slice', 3, 0, 3),
                ('index', 3, 0, 4), ('interchange', 2, 0, 6),
                ('interchange', 3, 0, 4), ('normalize', 2, 0, 6),
                ('normalize', 3, 0, 4)]
    for op, ka, kb, n in opsb:
        cov = {"then": ["accepted", "refused"], "tensor": ["accepted"],
               "slice": ["stepNone", "step-1", "proper-subset"],
               "index": ["accepted", "refused"],
               "interchange": ["accepted", "refused", "indexerror"],
               "normalize": ["steps1", "steps0"]}[op]
        hs.append(H("opsB_%s_%d_%d" % (op, ka, kb), opsB,
                    dict(op=op, ka=ka, kb=kb, N=n),
                    FUNCS_CORE + ["discopy.rewriting.interchange",
                                  "discopy.rewriting.normalize"],
                    covers=cov, modeb=True, stubs=STUBS_B,
                    bounds="Mode B: %s on diagrams with %d (+%d) boxes, "
                    "widths <= %d symbolic; slice bounds / indices symbolic "
                    "in [-k-2, k+2]" % (op, ka, kb, n),
                    outside="wider types, more boxes", timeout_s=T))
    for cls in ('monoidal', 'rigid'):
        for op in ('dagger', 'slices', 'interchange', 'normal_form',
                   'foliation', 'functor', 'tensor_then'):
            k, w, a, L = (2, 2, 1, 2) if q else (2, 3, 2, 2)
            if q and op == 'slices':
                continue        # quick: slices are covered by Mode B + catA
            if op in ('slices', 'tensor_then', 'functor'):
                k, w = (1, 2) if q else (2, 2)
            if not q and op in ('interchange', 'normal_form'):
                k, w, a = 3, 2, 1
            if not q and op == 'tensor_then':
                k, w, a = 1, 2, 2
            if cls == 'rigid' and not q:
                k, w, a = (2, 2, 2) if op not in ('tensor_then', 'slices') \
                    else (1, 2, 2)
            hs.append(H("opsA_%s_%s" % (cls, op), opsA,
                        dict(cls=cls, op=op, k=k, w=w, a=a, L=L),
                        FUNCS_CORE + [
                            "discopy.rewriting.interchange",
                            "discopy.rewriting.normalize",
                            "discopy.rewriting.normal_form",
                            "discopy.rewriting.foliate",
                            "discopy.rewriting.foliation",
                            "discopy.rewriting.flatten",
                            "discopy.monoidal.Functor.__call__",
                            "discopy.monoidal.Diagram.subclass"],
                        covers=["returned"], modeb=True,
                        stubs=["DISCOPY_VERIF hook re-scans every diagram "
                               "built with supplied layers"],
                        bounds="Mode A %s: %d boxes, width <= %d, arity <= %d,"
                        " %s" % (cls, k, w, a,
                                 "2 symbolic labels" if cls == 'monoidal' else
                                 "objects enumerated from {a, a.r, b.l}"),
                        outside="larger diagrams; bubbles", timeout_s=T))
    for op in ('cups', 'caps', 'transpose', 'swap', 'curry', 'fafb'):
        w = 2
        alpha = ALPHA_Q
        if op in ('fafb',):
            w = 1 if q else 2
        if not q and op in ('cups', 'caps', 'swap'):
            alpha, w = ALPHA_T, 2
        hs.append(H("rigidA_%s" % op, rigidA,
                    dict(op=op, w=w, L=2, alpha=alpha),
                    ["discopy.rigid.cups", "discopy.rigid.caps",
                     "discopy.rigid.Diagram.transpose",
                     "discopy.rigid.Diagram.curry", "discopy.rigid.Diagram.fa",
                     "discopy.rigid.Diagram.ba", "discopy.rigid.Diagram.fc",
                     "discopy.rigid.Diagram.bc", "discopy.rigid.Diagram.fx",
                     "discopy.rigid.Diagram.bx", "discopy.rigid.Cup.__init__",
                     "discopy.rigid.Cap.__init__",
                     "discopy.monoidal.Diagram.swap"],
                    covers=["returned"], engine="DSE (choices only: shapes "
                    "are enumerated by the engine, no symbolic content)",
                    bounds="rigid types of width <= %d over %d objects "
                    "(enumerated by the engine)" % (w, len(alpha)),
                    outside="wider types, other winding numbers",
                    timeout_s=T))
    for cls in ('circuit', 'zx', 'tensor', 'biclosed', 'cartesian'):
        k, w = (2, 3) if q else (2, 4)
        if cls in ('circuit', 'zx'):
            k, w = (2, 2) if q else (2, 3)
        if cls in ('circuit', 'tensor', 'cartesian') and not q:
            k, w = (2, 2) if cls == 'circuit' else (2, 3)
        hs.append(H("poolA_%s" % cls, poolA, dict(cls=cls, k=k, w=w),
                    ["discopy.cat.Arrow.__getitem__",
                     "discopy.monoidal.Diagram.__getitem__",
                     "discopy.monoidal.Diagram.tensor",
                     "discopy.monoidal.Diagram.then",
                     "discopy.monoidal.Diagram.subclass"],
                    covers=["generators", "composite"],
                    engine="DSE (choices only: shapes are enumerated by the "
                    "engine, no symbolic content)",
                    bounds="%s: every generator of a fixed pool, and all "
                    "composites of %d pool boxes of width <= %d" % (cls, k, w),
                    outside="boxes outside the pool, deeper diagrams",
                    timeout_s=T))
    for op in ('ctor', 'slices'):
        k = 3 if q else 4
        hs.append(H("catA_%s" % op, catA, dict(op=op, k=k, L=3),
                    ["discopy.cat.Arrow.__init__",
                     "discopy.cat.Arrow.__getitem__", "discopy.cat.Arrow.then"],
                    covers=["accepted", "refused"] if op == 'ctor'
                    else ["stepNone", "step-1"],
                    bounds="cat arrows with %d boxes, object labels symbolic "
                    "in [0,3)" % k, outside="longer arrows", timeout_s=T))
    return hs


# ------------------------------------------------- semantic diagram classes

def _pools(cls):
    """(types to start from, generator boxes, Id) of a semantic class"""
    import numpy as np
    if cls == 'circuit':
        from discopy.quantum import circuit as C, gates as G
        from discopy.quantum.circuit import (
            bit, qubit, Measure, Encode, Discard, MixedState, Swap, Id)
        doms = [qubit ** 0, qubit, bit, qubit @ bit, bit @ qubit, qubit ** 2,
                bit ** 2]
        boxes = [G.H, G.X, G.CX, G.Rz(0.25), G.Ket(0), G.Ket(1, 0), G.Bra(1),
                 G.Bits(1), G.Bits(0, 1).dagger(), G.Copy(), G.Match(),
                 G.Digits(1, dim=3), G.Digits(2, 0, dim=3),
                 G.Digits(1, dim=3).dagger(),
                 Measure(), Measure(1, destructive=False),
                 Measure(1, override_bits=True),
                 Measure(1, destructive=False, override_bits=True),
                 Measure(2), Encode(), Encode(1, constructive=False),
                 Encode(1, reset_bits=True), Discard(), Discard(bit),
                 Discard(qubit @ bit), MixedState(), MixedState(bit),
                 MixedState(bit @ qubit), G.SWAP, Swap(bit, qubit),
                 Swap(qubit, bit), G.scalar(0.5), G.scalar(0.5, is_mixed=True),
                 G.scalar(0.5j, is_mixed=True), G.scalar(1 + 2j),
                 G.Controlled(G.Rz(0.1)), G.CRz(0.3), G.sqrt(2)]
        extra = [C.Circuit.cups(bit, bit), C.Circuit.cups(qubit, qubit),
                 C.Circuit.caps(bit @ qubit, qubit @ bit),
                 C.Circuit.swap(bit @ qubit, qubit),
                 C.Circuit.permutation([2, 0, 1], bit @ qubit @ qubit)]
        return doms, boxes, extra, Id
    if cls == 'zx':
        from discopy.quantum import zx
        from discopy.rigid import PRO
        doms = [PRO(n) for n in range(4)]
        boxes = [zx.Z(1, 2, 0.25), zx.X(2, 1), zx.Z(0, 1), zx.X(1, 0, 0.5),
                 zx.Z(1, 1, 0.5), zx.Y(1, 1), zx.H, zx.SWAP, zx.scalar(0.5j),
                 zx.Z(2, 2), zx.X(0, 0, 0.5), zx.Z(0, 2)]
        extra = [zx.Diagram.cups(PRO(2), PRO(2)), zx.Diagram.caps(PRO(1), PRO(1)),
                 zx.Diagram.swap(PRO(2), PRO(1)),
                 zx.Diagram.permutation([1, 2, 0])]
        return doms, boxes, extra, zx.Id
    if cls == 'tensor':
        from discopy import tensor as T
        from discopy.tensor import Dim
        doms = [Dim(1), Dim(2), Dim(3), Dim(2, 3), Dim(3, 2), Dim(2, 2)]

        def box(name, dom, cod):
            n = int(np.prod(list(dom) + list(cod) or [1]))
            return T.Box(name, dom, cod, list(range(1, n + 1)))
        boxes = [box('f', Dim(2), Dim(3)), box('g', Dim(3, 2), Dim(2)),
                 box('s', Dim(1), Dim(2)), box('e', Dim(3), Dim(1)),
                 box('c', Dim(1), Dim(1)), box('h', Dim(2), Dim(2, 2)),
                 box('f', Dim(2), Dim(3)).dagger(), T.Spider(1, 2, Dim(2)),
                 T.Spider(2, 0, Dim(3)), T.Swap(Dim(2), Dim(3)),
                 T.Swap(Dim(2), Dim(2))]
        extra = [T.Diagram.cups(Dim(2, 3), Dim(3, 2)),
                 T.Diagram.caps(Dim(2), Dim(2)),
                 T.Diagram.swap(Dim(2, 3), Dim(2)),
                 T.Diagram.spiders(2, 1, Dim(3))]
        return doms, boxes, extra, T.Id
    if cls == 'biclosed':
        from discopy import biclosed as B
        x, y, z = B.Ty('x'), B.Ty('y'), B.Ty('z')
        doms = [B.Ty(), x, x @ y, (x << y) @ y, x @ (x >> y), (x << y) @ (y << z)]
        f = B.Box('f', x @ y, z)
        boxes = [B.FA(x << y), B.BA(x >> y), B.FA(x << (y @ z)),
                 B.BA((x @ z) >> y), B.FC(x << y, y << z), B.BC(x >> y, y >> z),
                 B.FX(x << y, z >> y), B.BX(y << x, y >> z), B.Curry(f),
                 B.Curry(f, left=True), B.Box('w', B.Ty(), x << y),
                 B.Box('v', B.Ty(), y), B.Box('u', B.Ty(), x),
                 B.Box('t', B.Ty(), x >> y), f]
        return doms, boxes, [], B.Id
    if cls == 'cartesian':
        from discopy import cartesian as K
        from discopy.monoidal import PRO
        doms = [PRO(n) for n in range(4)]
        boxes = [K.Box('f', 1, 2, lambda x: (x, x)), K.Box('g', 2, 1, max),
                 K.Box('c', 0, 1, lambda: 1), K.Box('d', 1, 0, lambda x: ()),
                 K.Swap(1, 1), K.Copy(1), K.Discard(1), K.Box('s', 0, 0, lambda: ())]
        extra = [K.Swap(2, 1), K.Copy(2), K.Discard(2)]
        return doms, boxes, extra, K.Id
    raise ValueError(cls)


def _pool_diagram(E, doms, boxes, Id, k, w, tag=''):
    d = Id(E.choice(tag + 'dom', doms))
    for i in range(k):
        scan = d.cod
        cands = [(bi, off) for bi, b in enumerate(boxes)
                 for off in range(len(scan) - len(b.dom) + 1)
                 if scan[off:off + len(b.dom)] == b.dom
                 and len(scan) - len(b.dom) + len(b.cod) <= w]
        bi, off = E.choice('%sstep%d' % (tag, i), cands)
        b = boxes[bi]
        d = d >> Id(scan[:off]) @ b @ Id(scan[off + len(b.dom):])
    return d


def poolA(E, cls, k, w):
    """semantic diagram classes: every generator, its dagger, and composite
    diagrams built from them stay well-typed under dagger / slicing /
    tensor / normal_form (shapes enumerated by the engine)"""
    hook.enable(True)
    try:
        doms, boxes, extra, Id = _pools(cls)
        # biclosed and cartesian categories have no dagger: not requested
        dag = cls not in ('biclosed', 'cartesian')
        part = E.choice('part', ['generators', 'extra', 'composite'])
        out = []
        if part == 'generators':
            b = E.choice('box', boxes)
            out += [b, Id(b.dom) >> b, b @ b]
            if dag:
                E.check(teq(b.dagger().dom, b.cod)
                        and teq(b.dagger().cod, b.dom),
                        "C01:%s:dagger-not-identity-on-objects" % cls,
                        info=repr(b))
                out += [b.dagger(), b[::-1], b.dagger().dagger(),
                        (b @ b)[::-1], (b >> b.dagger()), (b.dagger() >> b)]
        elif part == 'extra':
            if not extra:
                raise Abort()
            d = E.choice('extra', extra)
            out += [d, d @ d, d[1:], d[:1]]
            if dag:
                out += [d[::-1], d[::-1][::-1]]
        else:
            d = _pool_diagram(E, doms, boxes, Id, k, w)
            i = E.choice('i', range(k + 1))
            out += [d, d[:i], d[i:]]
            if dag:
                out += [d[::-1], d[:i][::-1], d[::-1][::-1]]
            if cls not in ('cartesian',):
                try:
                    out.append(d.normal_form()
                               if cls not in ('circuit', 'zx', 'tensor')
                               else d)
                except NotImplementedError:
                    pass
        for r in out:
            E.check(welltyped(r), "C01:%s:%s:illtyped" % (cls, part),
                    info=str(r)[:300])
        E.cover(part)
    finally:
        hook.enable(False)
