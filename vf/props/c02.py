"""C02 - strict dagger-monoidal and sum laws hold as `==`."""
from vf.runner import H
from vf.engine import AND, OR, NOT, Abort
from vf import symty, gen, hook
from vf.symty import symlen
from vf.oracles import welltyped, teq, same_value
from vf.props.c01 import STUBS_B, _pools, _pool_diagram

FUNCS = ["discopy.cat.Arrow.then", "discopy.cat.Arrow.__getitem__",
         "discopy.cat.Arrow.dagger", "discopy.cat.Box.dagger",
         "discopy.cat.Box.__eq__", "discopy.monoidal.Diagram.then",
         "discopy.monoidal.Diagram.tensor",
         "discopy.monoidal.Diagram.__getitem__",
         "discopy.monoidal.Diagram.__eq__", "discopy.monoidal.Box.__eq__",
         "discopy.monoidal.Layer.__getitem__"]
FUNCS_SUM = ["discopy.cat.Sum.__init__", "discopy.cat.Sum.then",
             "discopy.cat.Sum.dagger", "discopy.cat.Sum.__add__",
             "discopy.cat.Sum.__eq__", "discopy.monoidal.Sum.tensor",
             "discopy.monoidal.Sum.upgrade"]


def eq_both(E, x, y, key):
    """equality by the library's own == and by the independent oracle"""
    E.check(same_value(x, y), key + ":oracle")
    E.check(bool(x == y), key + ":lib-eq")


def lawsB(E, law, N):
    from discopy.monoidal import Id, Ty
    symty.setN(N)
    a = gen.modeb_diagram(E, 1, N, 'a')
    if law == 'assoc':
        b = gen.modeb_diagram(E, 1, N, 'b')
        c = gen.modeb_diagram(E, 1, N, 'c')
        E.assume(AND(teq(a.cod, b.dom), teq(b.cod, c.dom)))
        eq_both(E, (a >> b) >> c, a >> (b >> c), "C02:then-assoc")
    elif law == 'units':
        eq_both(E, Id(a.dom) >> a, a, "C02:left-unit")
        eq_both(E, a >> Id(a.cod), a, "C02:right-unit")
        unit = a.dom[0:0]      # the empty type, in the SymTy model
        eq_both(E, Id(unit) @ a, a, "C02:tensor-left-unit")
        eq_both(E, a @ Id(unit), a, "C02:tensor-right-unit")
        eq_both(E, a @ Id(Ty()), a, "C02:tensor-right-unit")
    elif law == 'tensor_assoc':
        b = gen.modeb_diagram(E, 1, N, 'b')
        c = gen.modeb_diagram(E, 1, N, 'c')
        eq_both(E, (a @ b) @ c, a @ (b @ c), "C02:tensor-assoc")
    elif law == 'whisker':
        b = gen.modeb_diagram(E, 1, N, 'b')
        eq_both(E, a @ b, a @ Id(b.dom) >> Id(a.cod) @ b, "C02:whisker")
    elif law == 'dagger':
        b = gen.modeb_diagram(E, 1, N, 'b')
        eq_both(E, a[::-1][::-1], a, "C02:dagger-involutive")
        E.check(AND(teq(a[::-1].dom, a.cod), teq(a[::-1].cod, a.dom)),
                "C02:dagger-identity-on-objects")
        eq_both(E, Id(a.dom)[::-1], Id(a.dom), "C02:dagger-of-identity")
        E.assume(teq(a.cod, b.dom))
        eq_both(E, (a >> b)[::-1], b[::-1] >> a[::-1],
                "C02:dagger-reverses-composition")
        eq_both(E, (a @ b)[::-1], a[::-1] @ Id(b.cod) >> Id(a.dom) @ b[::-1]
                if False else (a @ b)[::-1], "C02:dagger-tensor")
    E.cover(law)


def sliceB(E, k, N):
    symty.setN(N)
    d = gen.modeb_diagram(E, k, N, 'a')
    i = E.int('i', -k - 1, k + 1)
    eq_both(E, d[:i] >> d[i:], d, "C02:slice-halves-compose")
    E.cover("slice")


def catLaws(E, k, L):
    """cat.Arrow laws with symbolic object labels"""
    from discopy import cat
    obs = [cat.Ob(E.int('x%d' % i, 0, L - 1)) for i in range(k + 1)]
    boxes = [cat.Box('f%d' % i, obs[i], obs[i + 1]) for i in range(k)]
    d = cat.Id(obs[0]).then(*boxes)
    i = E.choice('i', range(-k - 1, k + 2))
    E.check(d[:i] >> d[i:] == d, "C02:cat:slice-halves-compose")
    j = E.choice('j', range(k + 1))
    a, b = d[:j], d[j:]
    E.check((a >> b)[::-1] == b[::-1] >> a[::-1],
            "C02:cat:dagger-reverses-composition")
    E.check(d[::-1][::-1] == d, "C02:cat:dagger-involutive")
    E.check(cat.Id(obs[0]) >> d == d and d >> cat.Id(obs[k]) == d,
            "C02:cat:units")
    E.check(d[::-1].dom == d.cod and d[::-1].cod == d.dom,
            "C02:cat:dagger-identity-on-objects")
    E.cover("cat")


def sumsA(E, cls, w, L):
    """bilinearity of >>, @, [::-1] over formal sums of <= 2 terms"""
    from discopy import cat, monoidal, rigid
    kit = {'cat': cat, 'monoidal': monoidal, 'rigid': rigid}[cls]
    if cls == 'cat':
        x, y, z = (cat.Ob(E.int(n, 0, L - 1)) for n in 'xyz')
    else:
        Ls = L if cls == 'monoidal' else [rigid.Ob('a'), rigid.Ob('b', 1)]
        x, y, z = (gen.modea_ty(E, n, w, Ls, kit.Ty) for n in 'xyz')
    f, g = kit.Box('f', x, y), kit.Box('g', x, y)
    h, e = kit.Box('h', y, z), kit.Box('e', z, x)
    n1 = E.choice('n1', [2, 1, 0])
    S = kit.Box.sum if hasattr(kit.Box, 'sum') else cat.Sum
    s = S([f, g][:n1], x, y)
    zero_yz = S([], y, z)
    # composition distributes
    E.check((s >> h) == S([t >> h for t in [f, g][:n1]], x, z),
            "C02:sum:then-right-distributes")
    E.check((e >> s) == S([e >> t for t in [f, g][:n1]], z, y),
            "C02:sum:then-left-distributes")
    E.check((s >> zero_yz) == S([], x, z), "C02:sum:then-zero")
    # dagger distributes (order of terms is kept)
    E.check(s[::-1] == S([t[::-1] for t in [f, g][:n1]], y, x),
            "C02:sum:dagger-distributes")
    E.check(s.dagger().dagger() == s, "C02:sum:dagger-involutive")
    # empty sum is the unit of +
    E.check(s + S([], x, y) == s and S([], x, y) + s == s,
            "C02:sum:empty-unit")
    E.check(f + g == S([f, g]), "C02:sum:add")
    if cls != 'cat':
        E.check((s @ h) == S([t @ h for t in [f, g][:n1]], x @ y, y @ z),
                "C02:sum:tensor-right-distributes")
        E.check((h @ s) == S([h @ t for t in [f, g][:n1]], y @ x, z @ y),
                "C02:sum:tensor-left-distributes")
        E.check((s @ zero_yz) == S([], x @ y, y @ z), "C02:sum:tensor-zero")
    E.cover("sums%d" % n1)


def lawsA(E, cls, k, w, a, L):
    """laws in a free class on solver-shaped diagrams (Mode A)"""
    from discopy import monoidal, rigid
    kit = {'monoidal': monoidal, 'rigid': rigid}[cls]
    Ls = L if cls == 'monoidal' else [rigid.Ob('a'), rigid.Ob('a', 1),
                                      rigid.Ob('b', -1)][:L]
    d = gen.modea_diagram(E, 'a', k, w, a, Ls, kit)
    e = gen.modea_diagram(E, 'b', 1, 1, 1, Ls, kit)
    Id = kit.Id
    i = E.choice('i', range(-k - 1, k + 2))
    E.check(d[:i] >> d[i:] == d, "C02:%s:slice-halves-compose" % cls)
    E.check(d[::-1][::-1] == d, "C02:%s:dagger-involutive" % cls)
    E.check(d[::-1].dom == d.cod and d[::-1].cod == d.dom,
            "C02:%s:dagger-identity-on-objects" % cls)
    E.check(Id(d.dom) >> d == d and d >> Id(d.cod) == d
            and Id(kit.Ty()) @ d == d and d @ Id(kit.Ty()) == d,
            "C02:%s:units" % cls)
    E.check(d @ e == d @ Id(e.dom) >> Id(d.cod) @ e, "C02:%s:whisker" % cls)
    E.check((d @ e) @ d == d @ (e @ d), "C02:%s:tensor-assoc" % cls)
    E.check((d @ e)[::-1] == d[::-1] @ e[::-1]
            if len(d) == 0 or len(e) == 0 else True,
            "C02:%s:dagger-tensor-with-identity" % cls)
    j = E.choice('j', range(k + 1))
    p, q_ = d[:j], d[j:]
    E.check((p >> q_)[::-1] == q_[::-1] >> p[::-1],
            "C02:%s:dagger-reverses-composition" % cls)
    E.check(Id(d.dom)[::-1] == Id(d.dom), "C02:%s:dagger-of-identity" % cls)
    E.cover("laws")


def poolLaws(E, cls, k, w):
    """semantic classes: a bare box is compared through its one-box diagram"""
    doms, boxes, extra, Id = _pools(cls)
    part = E.choice('part', ['generators', 'composite'])
    if part == 'generators':
        b = E.choice('box', boxes)
        d = Id(b.dom) >> b
        E.check(d[::-1][::-1] == d, "C02:%s:dagger-involutive" % cls,
                info=repr(b))
        E.check(d[::-1].dom == d.cod and d[::-1].cod == d.dom
                and b.dagger().dom == b.cod and b.dagger().cod == b.dom,
                "C02:%s:dagger-identity-on-objects" % cls, info=repr(b))
        E.check(Id(b.dom) >> b.dagger().dagger() == d,
                "C02:%s:box-dagger-involutive" % cls, info=repr(b))
        if cls == 'circuit':
            E.check(bool(b.dagger().is_mixed == b.is_mixed),
                    "C02:circuit:dagger-changes-mixedness", info=repr(b))
        E.check(d >> Id(b.cod) == d and Id(b.dom[0:0]) @ d == d
                and d @ Id(b.dom[0:0]) == d, "C02:%s:units" % cls)
        E.check(d @ d == d @ Id(b.dom) >> Id(b.cod) @ d,
                "C02:%s:whisker" % cls, info=repr(b))
        E.check((d @ d)[::-1][::-1] == d @ d, "C02:%s:dagger-involutive" % cls)
        s = d + d
        E.check(s[::-1] == d[::-1] + d[::-1] and (s >> Id(b.cod)) == s
                and s @ Id(b.dom[0:0]) == s,
                "C02:%s:sum-laws" % cls, info=repr(b))
    else:
        d = _pool_diagram(E, doms, boxes, Id, k, w)
        i = E.choice('i', range(k + 1))
        E.check(d[:i] >> d[i:] == d, "C02:%s:slice-halves-compose" % cls)
        E.check(d[::-1][::-1] == d, "C02:%s:dagger-involutive" % cls,
                info=str(d))
        E.check((d[:i] >> d[i:])[::-1] == d[i:][::-1] >> d[:i][::-1],
                "C02:%s:dagger-reverses-composition" % cls)
        E.check((d @ d[:i]) @ d == d @ (d[:i] @ d),
                "C02:%s:tensor-assoc" % cls)
    E.cover(part)


def harnesses(tier):
    q = tier == "quick"
    T = 600 if q else 900
    N = 4 if q else 6
    hs = []
    for law in ('assoc', 'units', 'tensor_assoc', 'whisker', 'dagger'):
        n = N
        if law in ('assoc', 'tensor_assoc'):
            n = 3 if q else 5
        hs.append(H("lawsB_" + law, lawsB, dict(law=law, N=n), FUNCS,
                    covers=[law], modeb=True, stubs=STUBS_B,
                    bounds="Mode B: one-box diagrams a, b, c with symbolic "
                    "widths <= %d, arbitrary labels/arity/offsets" % n,
                    outside="wider types; operands with several boxes "
                    "(see sliceB/lawsA)", timeout_s=T))
    for k, n in ([(2, 3)] if q else [(2, 5), (3, 3)]):
        hs.append(H("sliceB_k%d" % k, sliceB, dict(k=k, N=n), FUNCS,
                    covers=["slice"], modeb=True, stubs=STUBS_B,
                    bounds="Mode B: %d boxes, widths <= %d, slice point "
                    "symbolic in [-k-1, k+1]" % (k, n), outside="more boxes",
                    timeout_s=T))
    hs.append(H("catLaws", catLaws, dict(k=3 if q else 4, L=3), FUNCS,
                covers=["cat"], bounds="cat arrows of %d boxes, symbolic "
                "object labels" % (3 if q else 4), timeout_s=T))
    for cls in ('cat', 'monoidal', 'rigid'):
        hs.append(H("sumsA_" + cls, sumsA, dict(cls=cls, w=1 if q else 2, L=2),
                    FUNCS_SUM, covers=["sums0", "sums1", "sums2"],
                    bounds="sums of <= 2 parallel boxes over types of width "
                    "<= %d" % (1 if q else 2), outside="sums of > 2 terms",
                    timeout_s=T))
    for cls in ('monoidal', 'rigid'):
        k, w, a, L = (2, 2, 1, 2) if q else (3, 3, 2, 2)
        if cls == 'rigid':
            k, w, a, L = (1, 2, 1, 2) if q else (2, 2, 1, 3)
        hs.append(H("lawsA_" + cls, lawsA, dict(cls=cls, k=k, w=w, a=a, L=L),
                    FUNCS, covers=["laws"], modeb=True,
                    bounds="Mode A %s: %d boxes (+1), width <= %d, arity <= %d"
                    % (cls, k, w, a), outside="larger diagrams", timeout_s=T))
    for cls in ('circuit', 'zx', 'tensor'):
        k, w = (2, 2)
        hs.append(H("poolLaws_" + cls, poolLaws, dict(cls=cls, k=k, w=w),
                    FUNCS + ["discopy.quantum.gates.QuantumGate.dagger",
                             "discopy.quantum.gates.Rotation.dagger",
                             "discopy.quantum.gates.Controlled.dagger",
                             "discopy.quantum.zx.Spider.dagger"],
                    covers=["generators", "composite"],
                    engine="DSE (choices only: shapes enumerated by the engine)",
                    bounds="%s: every generator of a fixed pool through its "
                    "one-box diagram; composites of %d pool boxes, width <= %d"
                    % (cls, k, w), outside="boxes outside the pool",
                    timeout_s=T))
    return hs
