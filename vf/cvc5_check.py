"""Decide one SMT-LIB2 file with the cvc5 wheel; prints sat/unsat/unknown.
Run as a subprocess so that a query on which cvc5 ignores its own time limit
can be killed from outside."""
import sys


def main(path):
    import cvc5
    slv = cvc5.Solver()
    slv.setOption("tlimit-per", "20000")
    slv.setLogic("QF_NRA")
    prs = cvc5.InputParser(slv)
    prs.setFileInput(cvc5.InputLanguage.SMT_LIB_2_6, path)
    sm = prs.getSymbolManager()
    res = "unknown"
    while True:
        cmd = prs.nextCommand()
        if cmd.isNull():
            break
        out = cmd.invoke(slv, sm).strip()
        if out in ('sat', 'unsat', 'unknown'):
            res = out
    print(res)


if __name__ == "__main__":
    main(sys.argv[1])
