"""Oracles, written once and independent of the code under test (DESIGN 3.7).

They work on symbolic (SymTy / SymInt labelled) and concrete diagrams alike:
comparisons return bool or SymBool and are combined with AND/OR, never with
Python `and`/`or`, so no oracle forks a path.
"""
from vf.engine import AND, OR, NOT, SymBool, SymInt
from vf.symty import symlen


def ob_eq(x, y):
    return AND(x.name == y.name, getattr(x, 'z', 0) == getattr(y, 'z', 0))


def teq(a, b):
    """type equality as bool / SymBool; never forks a path"""
    from vf import symty
    st = symty._cls.get('c')
    if st is not None and (isinstance(a, st) or isinstance(b, st)):
        return a == b
    oa, ob = getattr(a, '_objects', None), getattr(b, '_objects', None)
    if oa is None or ob is None:
        if oa is None and ob is None and hasattr(a, 'name') \
                and hasattr(b, 'name'):
            return ob_eq(a, b)
        return a == b
    if len(oa) != len(ob):
        return False
    for x, y in zip(oa, ob):
        # biclosed Over/Under objects: compared structurally through their
        # printed form, not through the library's own __eq__
        if hasattr(x, 'left') or hasattr(y, 'left'):
            if type(x) is not type(y) or repr(x) != repr(y):
                return False
    return AND(*[ob_eq(x, y) for x, y in zip(oa, ob)
                 if not (hasattr(x, 'left') or hasattr(y, 'left'))])


def welltyped(d, check_layers=True):
    """boxes/offsets read from dom reach cod; layers agree with the reading"""
    boxes, offsets = d.boxes, d.offsets
    conds = [len(boxes) == len(offsets)]
    if check_layers:
        layers = list(d.layers.boxes)
        conds.append(len(layers) == len(boxes))
        conds.append(teq(d.layers.dom, d.dom))
        conds.append(teq(d.layers.cod, d.cod))
    if not all(c is True for c in conds if isinstance(c, bool)):
        return False
    scan = d.dom
    for k, (box, off) in enumerate(zip(boxes, offsets)):
        n = symlen(box.dom)
        conds += [off >= 0, off + n <= symlen(scan),
                  teq(scan[off:off + n], box.dom)]
        if check_layers:
            l, b, r = layers[k]
            conds += [teq(l, scan[:off]), teq(r, scan[off + n:]), b is box
                      or b == box]
        scan = scan[:off] @ box.cod @ scan[off + n:]
    conds.append(teq(scan, d.cod))
    return AND(*conds)


def welltyped_arrow(a):
    """cat.Arrow: boxes compose from dom to cod"""
    scan = a.dom
    conds = []
    for box in a.boxes:
        conds.append(teq(box.dom, scan))
        scan = box.cod
    conds.append(teq(scan, a.cod))
    return AND(*conds) if conds else True


def planar_form(d):
    """list of whiskerings (left, box, right) recomputed from boxes/offsets"""
    out, scan = [], d.dom
    for box, off in zip(d.boxes, d.offsets):
        n = symlen(box.dom)
        out.append((scan[:off], box, scan[off + n:]))
        scan = scan[:off] @ box.cod @ scan[off + n:]
    return out, scan


def same_value(d1, d2):
    """structural equality decided by the oracle (not Diagram.__eq__)"""
    if len(d1.boxes) != len(d2.boxes):
        return False
    conds = [teq(d1.dom, d2.dom), teq(d1.cod, d2.cod)]
    for b1, o1, b2, o2 in zip(d1.boxes, d1.offsets, d2.boxes, d2.offsets):
        conds += [o1 == o2, box_eq(b1, b2)]
    return AND(*conds)


def box_eq(b1, b2):
    if type(b1) is not type(b2) and not (
            isinstance(b1, type(b2)) or isinstance(b2, type(b1))):
        return False
    n1, n2 = getattr(b1, '_name', None), getattr(b2, '_name', None)
    return AND(n1 == n2 if not isinstance(n1 == n2, SymBool) else (n1 == n2),
               teq(b1.dom, b2.dom), teq(b1.cod, b2.cod),
               bool(getattr(b1, '_dagger', False)
                    == getattr(b2, '_dagger', False)),
               _data_eq(getattr(b1, '_data', None), getattr(b2, '_data', None)))


def _data_eq(a, b):
    try:
        r = a == b
        if isinstance(r, (bool, SymBool)):
            return r
        import numpy
        return bool(numpy.all(r))
    except Exception:
        return a is b


def wiring(d):
    """port-level connectivity of a concrete diagram.

    Returns a list of edges ((src_kind, src_idx, src_port), (tgt...)) with
    kinds 'in' (diagram input i), 'out' (diagram output i), 'box' (k-th box,
    port index in its cod resp. dom)."""
    scan = [('in', -1, i) for i in range(len(d.dom))]
    edges = []
    for k, (box, off) in enumerate(zip(d.boxes, d.offsets)):
        n = len(box.dom)
        for p in range(n):
            edges.append((scan[off + p], ('box', k, p)))
        scan = scan[:off] + [('box', k, p) for p in range(len(box.cod))] \
            + scan[off + n:]
    for i, src in enumerate(scan):
        edges.append((src, ('out', -1, i)))
    return edges


def ref_interchange_options(d, i):
    """spec-level adjacent exchange of boxes i, i+1 of a diagram.

    Returns a list of (condition, (off1', off0')) pairs: condition (bool or
    SymBool) says the boxes are disconnected in that orientation, the pair
    gives the offsets of box i+1 (now first) and box i (now second)."""
    box0, box1 = d.boxes[i], d.boxes[i + 1]
    off0, off1 = d.offsets[i], d.offsets[i + 1]
    c0, d0 = symlen(box0.cod), symlen(box0.dom)
    c1, d1 = symlen(box1.cod), symlen(box1.dom)
    # box0 strictly left of box1: box1's inputs start after box0's outputs
    left = off1 >= off0 + c0
    left_res = (off1 - c0 + d0, off0)
    # box0 right of box1: box0's outputs start after box1's inputs
    right = off0 >= off1 + d1
    right_res = (off1, off0 - d1 + c1)
    return [(left, left_res), (right, right_res)]
