"""In-process adapter binding pyzx.Graph for the pinned DisCoPy (C17).

The pinned zx.to_pyzx/from_pyzx were written against an older pyzx API:
`graph.inputs` / `graph.outputs` are lists (the installed pyzx has methods),
`set_position`, phases stored as given (no rounding to fractions, sympy
phases pass through), and `edge_type` of a non-edge is 0 (the installed one
raises).  This is an environment stub in the harness process, not in /repo.
"""
import pyzx
from pyzx.graph.graph_s import GraphS


class CL(list):
    """a list that is also callable (new API: g.inputs())"""

    def __call__(self):
        return tuple(self)


class VGraph(GraphS):
    def __init__(self):
        super().__init__()
        self.inputs = CL()
        self.outputs = CL()

    def set_inputs(self, inputs):
        self.inputs = CL(inputs)

    def set_outputs(self, outputs):
        self.outputs = CL(outputs)

    def set_phase(self, v, phase):
        self._phase[v] = phase

    def add_vertex(self, ty=0, qubit=-1, row=-1, phase=None, ground=False,
                   index=None):
        v = super().add_vertex(ty, qubit, row, None, ground)
        if phase is not None:
            self._phase[v] = phase
        return v

    def set_position(self, v, q, r):
        self.set_qubit(v, q)
        self.set_row(v, r)

    def edge_type(self, e):
        try:
            return self.graph[e[0]][e[1]]
        except KeyError:
            return 0


_orig = {}


def install():
    if 'Graph' not in _orig:
        _orig['Graph'] = pyzx.Graph
    pyzx.Graph = VGraph


def uninstall():
    if 'Graph' in _orig:
        pyzx.Graph = _orig['Graph']
