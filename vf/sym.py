"""SYM: the numeric code of DisCoPy executed on z3-term-valued numbers.

`ZC` is a complex number whose real and imaginary parts are z3 real terms.
numpy object arrays of ZC go through the *unmodified* Tensor / CQMap / Functor
code (tensordot, moveaxis, reshape, conjugate all work on object arrays), and
gate matrices that the library builds with sympy (symbolic phases) are
translated entry by entry.  An identity `lhs == rhs` is sent to z3 (QF_NRA) as
`constraints and OR_k lhs_k != rhs_k`; unsat = equal for all real values of all
unknowns.  A model is turned into floats and replayed on the real code.
"""
import math
import time
from fractions import Fraction

import numpy as np
import z3

from vf.engine import Inconclusive, Abort

R0, R1 = z3.RealVal(0), z3.RealVal(1)


def _is0(t):
    return z3.is_rational_value(t) and t.numerator_as_long() == 0


def _is1(t):
    return z3.is_rational_value(t) and t.numerator_as_long() == 1 \
        and t.denominator_as_long() == 1


def radd(a, b):
    if _is0(a):
        return b
    if _is0(b):
        return a
    if z3.is_rational_value(a) and z3.is_rational_value(b):
        return z3.simplify(a + b)
    return a + b


def rmul(a, b):
    if _is0(a) or _is0(b):
        return R0
    if _is1(a):
        return b
    if _is1(b):
        return a
    if z3.is_rational_value(a) and z3.is_rational_value(b):
        return z3.simplify(a * b)
    return a * b


def rneg(a):
    if _is0(a):
        return a
    if z3.is_rational_value(a):
        return z3.simplify(-a)
    return -a


class Ctx:
    """per-path state of the SYM engine: constraints, symbols, circle pairs"""

    def __init__(self):
        self.cons = []
        self.pairs = {}       # (key, D) -> (c, s) for cos/sin(pi*key/D)
        self.syms = {}        # name -> sympy Symbol (phases/parameters)
        self.reals = {}       # sympy Symbol -> z3 Real (polynomial use)
        self.arrs = {}        # name -> list of (re, im) z3 consts
        self._r2 = None
        self._pi = None
        self.tolerance_mode = False

    @property
    def r2(self):
        if self._r2 is None:
            self._r2 = z3.Real('sqrt2')
            self.cons += [self._r2 * self._r2 == 2, self._r2 > 0]
        return self._r2

    @property
    def pi(self):
        if self._pi is None:
            self._pi = z3.Real('PI')
            self.cons += [self._pi > z3.RealVal('3.1415926'),
                          self._pi < z3.RealVal('3.1415927')]
        return self._pi

    def real(self, s):
        if s not in self.reals:
            self.reals[s] = z3.Real('v_' + str(s))
        return self.reals[s]

    def pair(self, key, D):
        k = (key, D)
        if k not in self.pairs:
            c = z3.Real('c_%s_%d' % (key, D))
            s = z3.Real('s_%s_%d' % (key, D))
            self.pairs[k] = (c, s)
        return self.pairs[k]

    def link_constraints(self):
        """circle constraint on the finest pair of each key, coarser pairs are
        its powers"""
        out = []
        by_key = {}
        for (key, D) in self.pairs:
            by_key.setdefault(key, []).append(D)
        for key, Ds in by_key.items():
            Dmax = 1
            for D in Ds:
                Dmax = Dmax * D // math.gcd(Dmax, D)
            base = self.pair(key, Dmax)
            out.append(base[0] * base[0] + base[1] * base[1] == 1)
            for D in Ds:
                if D == Dmax:
                    continue
                p = cpow((base[0], base[1]), Dmax // D)
                c, s = self.pairs[(key, D)]
                out += [c == p[0], s == p[1]]
        return out, by_key


def cmul(a, b):
    return (radd(rmul(a[0], b[0]), rneg(rmul(a[1], b[1]))),
            radd(rmul(a[0], b[1]), rmul(a[1], b[0])))


def cpow(a, m):
    if m < 0:
        a, m = (a[0], rneg(a[1])), -m       # unit modulus: inverse=conjugate
    r = (R1, R0)
    for _ in range(m):
        r = cmul(r, a)
    return r


_CTX = [None]


def ctx():
    return _CTX[0]


class ZC:
    """complex number with z3 real and imaginary parts"""
    __slots__ = ('re', 'im')
    __array_priority__ = 1000

    def __init__(self, re, im=R0):
        self.re, self.im = re, im

    @staticmethod
    def of(x):
        if isinstance(x, ZC):
            return x
        return coerce(x)

    def __add__(self, o):
        o = ZC.of(o)
        if o is NotImplemented:
            return o
        return ZC(radd(self.re, o.re), radd(self.im, o.im))
    __radd__ = __add__

    def __sub__(self, o):
        o = ZC.of(o)
        return ZC(radd(self.re, rneg(o.re)), radd(self.im, rneg(o.im)))

    def __rsub__(self, o):
        return ZC.of(o) - self

    def __mul__(self, o):
        if isinstance(o, np.ndarray):
            return NotImplemented
        o = ZC.of(o)
        if o is NotImplemented:
            return o
        return ZC(*cmul((self.re, self.im), (o.re, o.im)))
    __rmul__ = __mul__

    def __neg__(self):
        return ZC(rneg(self.re), rneg(self.im))

    def __pos__(self):
        return self

    def __truediv__(self, o):
        o = ZC.of(o)
        if not _is0(o.im):
            raise NotImplementedError("division by a complex ZC")
        return ZC(self.re / o.re if not _is0(self.re) else R0,
                  self.im / o.re if not _is0(self.im) else R0)

    def __pow__(self, n):
        if isinstance(n, float) and n == int(n):
            n = int(n)
        if not isinstance(n, int) or n < 0:
            raise NotImplementedError("ZC ** %r" % (n,))
        r = ZC(R1, R0)
        for _ in range(n):
            r = r * self
        return r

    def conjugate(self):
        return ZC(self.re, rneg(self.im))

    @property
    def real(self):
        return ZC(self.re, R0)

    @property
    def imag(self):
        return ZC(self.im, R0)

    def abs2(self):
        return ZC(radd(rmul(self.re, self.re), rmul(self.im, self.im)), R0)

    def __abs__(self):
        raise NotImplementedError("abs of a ZC (use abs2)")

    def __bool__(self):
        raise NotImplementedError("truth value of a symbolic number")

    def __eq__(self, o):
        # Only the `other == 0` idiom of Tensor.__add__/__radd__ (sum() start
        # value) reaches this: a constant ZC compares by value, a non-constant
        # one is "not literally that number" (adding an all-zero tensor gives
        # the same result on either branch).
        if isinstance(o, (int, float, complex)):
            if z3.is_rational_value(self.re) and z3.is_rational_value(self.im):
                return complex(
                    self.re.numerator_as_long() / self.re.denominator_as_long(),
                    self.im.numerator_as_long() / self.im.denominator_as_long()
                ) == o
            return False
        raise NotImplementedError("== on symbolic numbers (use prove_equal)")

    def __hash__(self):
        return 0

    def __repr__(self):
        return "ZC(%s, %s)" % (self.re, self.im)

    # sympy-like interface used by Tensor.subs / grad on entries
    def subs(self, *a):
        return self

    free_symbols = frozenset()


def rat(fr):
    fr = Fraction(fr)
    return z3.RealVal(str(fr))


def float_closed_form(f):
    """float -> (q, a, b) with f ~ q * pi^a * sqrt2^b, or None"""
    if f == 0:
        return (Fraction(0), 0, 0)
    for a in (0, 1, 2):
        for b in (0, 1, -1, 2, -2, 3, -3):
            val = f / (math.pi ** a * math.sqrt(2) ** b)
            q = Fraction(val).limit_denominator(64)
            if q != 0 and abs(val - q) <= 1e-12 * max(1.0, abs(val)):
                return (q, a, b)
    return None


def real_from_float(f):
    f = float(f)
    if f == int(f) and abs(f) < 1e15:
        return rat(int(f))
    cf = float_closed_form(f)
    c = ctx()
    if cf is not None:
        q, a, b = cf
        t = rat(q)
        for _ in range(a):
            t = rmul(t, c.pi)
        if b > 0:
            for _ in range(b):
                t = rmul(t, c.r2)
        elif b < 0:
            for _ in range(-b):
                t = rmul(t, c.r2 / 2)        # 1/sqrt2 = sqrt2/2
        return t
    q = Fraction(f).limit_denominator(10 ** 6)
    if abs(float(q) - f) < 1e-15:
        return rat(q)
    c.tolerance_mode = True
    return rat(Fraction(f))


def cis_const(q):
    """exp(i*pi*q), q rational"""
    q = Fraction(q) % 2
    k = q * 4
    c = ctx()
    if k.denominator == 1:
        h = c.r2 / 2
        table = [(R1, R0), (h, h), (R0, R1), (-h, h), (-R1, R0), (-h, -h),
                 (R0, -R1), (h, -h)]
        return table[int(k)]
    # other rational multiples of pi: a root of unity (over-approximated by
    # "some D-th root of -1 in the right quadrant"); replay filters
    D = q.denominator
    base = c.pair('PIFRAC', D)
    p = cpow(base, D)
    c.cons += [p[0] == -1, p[1] == 0, base[0] > 0 if D > 2 else base[0] >= 0,
               base[1] > 0]
    return cpow(base, q.numerator)


def cis(ang):
    """exp(i*ang) for ang a real sympy expression: rational-linear in
    pi * monomial(symbols) plus rational multiples of pi"""
    import sympy
    c = ctx()
    ang = sympy.expand(ang)
    r = (R1, R0)
    for term in sympy.Add.make_args(ang):
        if term == 0:
            continue
        coeff, rest = term.as_coeff_Mul()
        if coeff.is_Float:
            coeff = sympy.nsimplify(coeff, rational=True, tolerance=1e-12)
            coeff2 = sympy.nsimplify(float(term.as_coeff_Mul()[0]) / math.pi,
                                     rational=True, tolerance=1e-12)
            if rest == 1 and coeff2.q <= 64:
                r = cmul(r, cis_const(Fraction(int(coeff2.p), int(coeff2.q))))
                continue
        if not coeff.is_Rational:
            raise NotImplementedError("angle coefficient %r" % (coeff,))
        fr = Fraction(int(coeff.p), int(coeff.q))
        if rest == sympy.pi:
            r = cmul(r, cis_const(fr))
            continue
        if rest.has(sympy.pi):
            mono = rest / sympy.pi
        else:
            # angle without pi (e.g. numeric pi folded into a float coeff)
            cf = float_closed_form(float(coeff)) if term.as_coeff_Mul()[
                0].is_Float else None
            raise NotImplementedError("angle term without pi: %r" % (term,))
        if mono.has(sympy.pi) or not mono.free_symbols:
            raise NotImplementedError("angle monomial %r" % (mono,))
        key = str(mono).replace(' ', '')
        pr = c.pair(key, fr.denominator)
        r = cmul(r, cpow(pr, fr.numerator))
    return r


def coerce(e):
    """python / numpy / sympy number -> ZC"""
    import sympy
    if isinstance(e, ZC):
        return e
    if isinstance(e, (bool, int, np.integer)):
        return ZC(rat(int(e)), R0)
    if isinstance(e, (float, np.floating)):
        return ZC(real_from_float(e), R0)
    if isinstance(e, (complex, np.complexfloating)):
        return ZC(real_from_float(e.real), real_from_float(e.imag))
    if isinstance(e, Fraction):
        return ZC(rat(e), R0)
    if isinstance(e, np.ndarray) and e.shape == ():
        return coerce(e.item())
    if isinstance(e, sympy.Basic):
        return _sympy(_realify(e))
    return NotImplemented


def _realify(e):
    """symbols are real parameters: third-party code (pytket) may hand back
    same-named symbols without the assumption"""
    import sympy
    rep = {s: sympy.Symbol(s.name, real=True) for s in e.free_symbols
           if not s.is_real}
    return e.xreplace(rep) if rep else e


def _sympy(e):
    import sympy
    c = ctx()
    if e.is_Number:
        if e.is_Float:
            return ZC(real_from_float(float(e)), R0)
        if e.is_Rational:
            return ZC(rat(Fraction(int(e.p), int(e.q))), R0)
    if e == sympy.I:
        return ZC(R0, R1)
    if e == sympy.pi:
        return ZC(c.pi, R0)
    if e.is_Symbol:
        return ZC(c.real(e), R0)
    if e.is_Add:
        r = ZC(R0, R0)
        for a in e.args:
            r = r + _sympy(a)
        return r
    if e.is_Mul:
        r = ZC(R1, R0)
        for a in e.args:
            r = r * _sympy(a)
        return r
    if e.is_Pow:
        b, ex = e.args
        if ex.is_Float and float(ex) == int(float(ex)):
            ex = sympy.Integer(int(float(ex)))
        if ex.is_Integer and ex >= 0:
            return _sympy(b) ** int(ex)
        if b == 2 and ex == sympy.Rational(1, 2):
            return ZC(c.r2, R0)
        if b == 2 and ex == sympy.Rational(-1, 2):
            return ZC(c.r2 / 2, R0)
        if ex.is_Integer and ex < 0:
            base = _sympy(b)
            if _is0(base.im):
                d = base ** int(-ex)
                return ZC(R1 / d.re, R0)
        if ex.is_Float and float(ex) * 2 == int(float(ex) * 2):
            ex = sympy.Rational(int(float(ex) * 2), 2)
        if ex.is_Rational and ex.q == 2 and b.is_real and b.is_nonnegative:
            # square root of a non-negative real term (nested radicals,
            # sqrt(x**2 + 1), ...): one shared unknown t per radicand with
            # t*t == radicand and t >= 0
            rads = c.__dict__.setdefault('rads', {})
            k = sympy.srepr(b)
            if k not in rads:
                base = _sympy(b)
                t = z3.Real('rad%d' % (len(rads) + 1))
                c.cons += [t * t == base.re, t >= 0]
                rads[k] = t
            r = ZC(rads[k], R0) ** abs(int(ex.p))
            return r if ex.p > 0 else ZC(R1 / r.re, R0)
    if isinstance(e, sympy.conjugate):
        return _sympy(e.args[0]).conjugate()
    if isinstance(e, sympy.exp):
        arg = sympy.expand(e.args[0])
        re_, im_ = arg.as_real_imag()
        if re_ != 0:
            raise NotImplementedError("exp with real part: %r" % (arg,))
        return ZC(*cis(im_))
    if isinstance(e, sympy.cos):
        return ZC(cis(e.args[0])[0], R0)
    if isinstance(e, sympy.sin):
        return ZC(cis(e.args[0])[1], R0)
    if isinstance(e, sympy.re):
        return _sympy(e.args[0]).real
    if isinstance(e, sympy.im):
        return _sympy(e.args[0]).imag
    if isinstance(e, sympy.Abs):
        raise NotImplementedError("Abs")
    raise NotImplementedError("cannot encode %r" % (e,))


# ------------------------------------------------------------ harness API

def begin(E):
    """start a SYM section on this path"""
    c = Ctx()
    E.extra['sym'] = c
    _CTX[0] = c
    return c


def sym(E, name):
    import sympy
    c = E.extra['sym']
    s = sympy.Symbol(name, real=True)
    c.syms[name] = s
    return s


def carr(E, name, shape, real=False):
    """generic array: every entry an independent complex (or real) unknown"""
    c = E.extra['sym']
    n = int(np.prod(shape)) if len(shape) else 1
    if E.symbolic:
        cells, out = [], np.empty(n, dtype=object)
        for i in range(n):
            re = z3.Real('%s_r%d' % (name, i))
            im = R0 if real else z3.Real('%s_i%d' % (name, i))
            cells.append((re, im))
            out[i] = ZC(re, im)
        c.arrs[name] = cells
        return out.reshape(shape) if len(shape) else out.reshape(())
    vals = np.zeros(n, dtype=float if real else complex)
    for i in range(n):
        re = _num(E.d.get('%s_r%d' % (name, i), 0))
        im = 0 if real else _num(E.d.get('%s_i%d' % (name, i), 0))
        vals[i] = re if real else complex(re, im)
    return vals.reshape(shape) if len(shape) else vals.reshape(())


def _num(v):
    if isinstance(v, list):
        return v[0] / v[1]
    return float(v)


def assume(E, cond):
    """constraint over z3 terms of the SYM section (symbolic mode only)"""
    if E.symbolic:
        E.extra['sym'].cons.append(cond)


def flat(A):
    if isinstance(A, np.ndarray):
        return list(A.flatten())
    if isinstance(A, (list, tuple)):
        out = []
        for a in A:
            out += flat(a)
        return out
    return [A]


def _model_inputs(E, c, m):
    """solver model -> concrete values of symbols and array cells"""
    vals = {}
    _, by_key = c.link_constraints()
    for name, s in c.syms.items():
        key = str(s)
        if key in by_key:
            Dmax = 1
            for D in by_key[key]:
                Dmax = Dmax * D // math.gcd(Dmax, D)
            cc, ss = c.pairs[(key, Dmax)]
            cv = _mval(m, cc)
            sv = _mval(m, ss)
            vals[name] = math.atan2(sv, cv) * Dmax / math.pi
        elif s in c.reals:
            vals[name] = _mval(m, c.reals[s])
        else:
            vals[name] = 0.0
    for name, cells in c.arrs.items():
        for i, (re, im) in enumerate(cells):
            vals['%s_r%d' % (name, i)] = _mval(m, re)
            if not _is0(im):
                vals['%s_i%d' % (name, i)] = _mval(m, im)
    return vals


def _mval(m, t):
    r = m.eval(t, model_completion=True)
    if z3.is_rational_value(r):
        return r.numerator_as_long() / r.denominator_as_long()
    if z3.is_algebraic_value(r):
        a = r.approx(30)
        return a.numerator_as_long() / a.denominator_as_long()
    return float(str(r).replace('?', ''))


def _to_complex(E, x):
    import sympy
    if isinstance(x, sympy.Basic):
        subs = {s: E.d.get(s.name, 0.0) for s in x.free_symbols}
        return complex(sympy.N(x.subs(subs)))
    return complex(x)


def bounded_simplify(goal, ms=15000):
    """z3's simplifier under a time limit (it has none of its own and can
    run for hours on the expansion of large polynomial identities)"""
    try:
        g = z3.Goal()
        g.add(goal)
        r = z3.TryFor(z3.Tactic('simplify'), ms)(g)
        return r.as_expr()
    except z3.Z3Exception:
        return goal


def prove_equal(E, A, B, key, prop=False, timeout_ms=60000, info=None):
    """assert A == B entrywise (prop=True: up to one non-zero scalar)"""
    a, b = flat(A), flat(B)
    c = E.extra['sym']
    if len(a) != len(b):
        E.check(False, key + ":shape", info="%d vs %d entries" % (
            len(a), len(b)))
        return
    if not E.symbolic:
        av = np.array([_to_complex(E, x) for x in a])
        bv = np.array([_to_complex(E, x) for x in b])
        if prop:
            # A = lambda * B for one non-zero lambda: all 2x2 minors vanish
            # and A vanishes exactly when B does
            i = int(np.argmax(abs(bv)))
            za, zb = np.allclose(av, 0, atol=1e-7), np.allclose(bv, 0,
                                                                atol=1e-7)
            ok = (za and zb) or (not za and not zb and np.allclose(
                av * bv[i], bv * av[i], atol=1e-6))
        else:
            ok = np.allclose(av, bv, atol=1e-6)
        E.check(bool(ok), key, info=info or "lhs=%s rhs=%s" % (
            np.round(av, 4).tolist()[:16], np.round(bv, 4).tolist()[:16]))
        return
    _CTX[0] = c
    import numbers
    if all(isinstance(x, numbers.Number) for x in a + b) and not prop:
        # nothing symbolic on either side: plain numeric comparison
        E.stats.checks += 1
        if np.allclose(np.array(a, dtype=complex), np.array(b, dtype=complex),
                       atol=1e-9):
            E.stats.checks_unsat += 1
        else:
            E.cex.append(dict(key=key, info=info,
                              inputs=E.snapshot(E._model())))
        return
    za, zb = [ZC.of(x) for x in a], [ZC.of(x) for x in b]
    if prop:
        # A = lambda * B for one non-zero lambda.  Pivot encoding: if some
        # entry B[k] is provably never zero, A = (A[k]/B[k]) B  <=>  all
        # minors through column k vanish and A[k] != 0; otherwise all 2x2
        # minors vanish and A vanishes exactly when B does.
        links0, _ = c.link_constraints()
        n = len(za)
        nz = lambda zs: z3.Or(*[z3.Or(z.re != 0, z.im != 0) for z in zs])
        pivot = None
        for k in range(n):
            bk = zb[k]
            if z3.is_rational_value(bk.re) and z3.is_rational_value(bk.im):
                if not (_is0(bk.re) and _is0(bk.im)):
                    pivot = k
                    break
                continue
        if pivot is None:
            for k in range(min(n, 4)):
                sp = z3.Solver()
                sp.set('timeout', 3000)
                sp.add(*c.cons)
                sp.add(*links0)
                sp.add(zb[k].re == 0, zb[k].im == 0)
                E.stats.queries += 1
                if sp.check() == z3.unsat:
                    pivot = k
                    break
        diffs = []
        if pivot is not None:
            k = pivot
            for j in range(n):
                if j == k:
                    continue
                l = za[j] * zb[k] - za[k] * zb[j]
                diffs += [l.re != 0, l.im != 0]
            goal = z3.Or(z3.And(za[k].re == 0, za[k].im == 0), *diffs)
        else:
            for i in range(n):
                for j in range(i + 1, n):
                    l = za[i] * zb[j] - za[j] * zb[i]
                    diffs += [l.re != 0, l.im != 0]
            goal = z3.Or(z3.Or(*diffs) if diffs else z3.BoolVal(False),
                         nz(za) != nz(zb))
    else:
        diffs = []
        eps = z3.RealVal('1/1000000000')
        for x, y in zip(za, zb):
            for p_, q_ in ((x.re, y.re), (x.im, y.im)):
                if p_ is q_:
                    continue
                if c.tolerance_mode:
                    # an unrecognised float constant occurred: compare up
                    # to 1e-9 (marked "tolerance mode" in the evidence)
                    diffs.append(z3.Or(p_ - q_ > eps, q_ - p_ > eps))
                else:
                    diffs.append(p_ != q_)
        goal = z3.Or(*diffs) if diffs else z3.BoolVal(False)
        if c.tolerance_mode:
            E.cover("tolerance-mode")
    links, _ = c.link_constraints()
    E.stats.checks += 1
    goal = bounded_simplify(goal)
    if z3.is_false(goal):
        E.stats.checks_unsat += 1
        E.stats.queries += 1
        return
    s = z3.Solver()
    s.set('timeout', timeout_ms)
    s.add(*c.cons)
    s.add(*links)
    s.add(goal)
    t = time.time()
    r = s.check()
    E.stats.queries += 1
    E.stats.solver_s += time.time() - t
    if r == z3.unknown and not prop and len(diffs) > 1:
        # retry entry by entry
        r = z3.unsat
        for dd in diffs:
            s2 = z3.Solver()
            s2.set('timeout', timeout_ms)
            s2.add(*c.cons)
            s2.add(*links)
            s2.add(dd)
            t = time.time()
            r2 = s2.check()
            E.stats.queries += 1
            E.stats.solver_s += time.time() - t
            if r2 == z3.sat:
                r, s = z3.sat, s2
                break
            if r2 == z3.unknown:
                r = z3.unknown
    if r in (z3.unsat, z3.sat):
        cvc5_recheck(E, s, r)
    if r == z3.unsat:
        E.stats.checks_unsat += 1
        return
    if r == z3.unknown:
        E.stats.inconclusive += 1
        raise Inconclusive("nonlinear query unknown: " + key)
    m = s.model()
    inputs = E.snapshot(E._model())
    inputs.update(_model_inputs(E, c, m))
    E.cex.append(dict(key=key, info=info, inputs=inputs))


_CVC5 = dict(n=0)


def cvc5_recheck(E, solver, z3_result, timeout_ms=20000, budget=25):
    """thorough tier: the same assertions re-decided by cvc5 1.4 (second
    opinion on the QF_NRA verdicts; at most `budget` queries per worker)"""
    import os
    if os.environ.get("VERIF_TIER") != "thorough" or _CVC5['n'] >= budget:
        return
    _CVC5['n'] += 1
    import subprocess
    import sys
    import tempfile
    res = None
    try:
        with tempfile.NamedTemporaryFile('w', suffix='.smt2',
                                         delete=True) as f:
            f.write(solver.to_smt2())
            f.flush()
            out = subprocess.run(
                [sys.executable, '-m', 'vf.cvc5_check', f.name],
                capture_output=True, text=True, timeout=30,
                cwd='/verif').stdout.strip().splitlines()
            res = out[-1] if out else None
    except subprocess.TimeoutExpired:
        res = 'unknown'     # killed from outside: cvc5 ignored its limit
    except Exception:
        E.stats.count("cvc5_error")
        return
    if res in ('sat', 'unsat'):
        if res == str(z3_result):
            E.stats.count("cvc5_agrees")
        else:
            E.stats.count("cvc5_disagrees")
    else:
        E.stats.count("cvc5_unknown")


def prove_real_nonneg_sum1(E, A, key):
    """entries sum to 1 (trace preservation)"""
    a = flat(A)
    if not E.symbolic:
        tot = sum(_to_complex(E, x) for x in a)
        E.check(abs(tot - 1) < 1e-6, key, info="sum=%r" % (tot,))
        return
    _CTX[0] = E.extra['sym']
    tot = ZC(R0, R0)
    for x in a:
        tot = tot + ZC.of(x)
    prove_equal(E, [tot], [1], key)
