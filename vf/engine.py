"""DSE: a small dynamic symbolic executor over z3 (DESIGN.md section 3.1).

The real DisCoPy code is executed on proxy values (SymInt / SymBool / SymReal)
that build z3 terms.  `SymBool.__bool__` is the only place where execution can
branch: the engine asks z3 which sides are feasible, follows one and queues the
other (decision-prefix replay, depth first).  A harness is a plain function
`fn(E, **params)`; the very same function is executed again in *concrete mode*
(`ConcEnv`) with the values of a solver model to replay a candidate
counterexample against the unmodified code, without any proxy.
"""
import time
import traceback
from fractions import Fraction

import z3


class Abort(BaseException):
    """Path is infeasible (assumption violated / bound exceeded)."""


class Inconclusive(BaseException):
    """Solver answered unknown; nothing may be concluded from this path."""


class _Ctx:
    cur = None


def P():
    return _Ctx.cur


# ---------------------------------------------------------------- proxies

def lift(x):
    if isinstance(x, SymInt):
        return x.e
    if isinstance(x, bool):
        return z3.IntVal(int(x))
    if isinstance(x, int):
        return z3.IntVal(x)
    return None


def lift_r(x):
    if isinstance(x, SymReal):
        return x.e
    if isinstance(x, SymInt):
        return z3.ToReal(x.e)
    if isinstance(x, bool):
        return z3.RealVal(int(x))
    if isinstance(x, int):
        return z3.RealVal(x)
    if isinstance(x, float):
        return z3.RealVal(str(Fraction(x)))
    if isinstance(x, Fraction):
        return z3.RealVal(str(x))
    return None


def lift_b(x):
    if isinstance(x, SymBool):
        return x.e
    if isinstance(x, bool):
        return z3.BoolVal(x)
    raise TypeError("not a boolean: %r" % (x,))


class SymBool:
    def __init__(self, e):
        self.e = e

    def __bool__(self):
        return P().decide(self.e)

    def __and__(self, o):
        return SymBool(z3.And(self.e, lift_b(o)))
    __rand__ = __and__

    def __or__(self, o):
        return SymBool(z3.Or(self.e, lift_b(o)))
    __ror__ = __or__

    def __invert__(self):
        return SymBool(z3.Not(self.e))

    def __eq__(self, o):
        return SymBool(self.e == lift_b(o))

    def __ne__(self, o):
        return SymBool(self.e != lift_b(o))

    def __hash__(self):
        return 0

    def __repr__(self):
        return "SymBool(%s)" % self.e


def AND(*xs):
    """conjunction of bools / SymBools without forking"""
    if all(isinstance(x, bool) for x in xs):
        return all(xs)
    return SymBool(z3.And(*[lift_b(x) for x in xs]))


def OR(*xs):
    if all(isinstance(x, bool) for x in xs):
        return any(xs)
    return SymBool(z3.Or(*[lift_b(x) for x in xs]))


def NOT(x):
    return (not x) if isinstance(x, bool) else ~x


def IMPLIES(a, b):
    return OR(NOT(a), b)


class SymInt:
    def __init__(self, e):
        self.e = e

    def _bin(self, o, f):
        oe = lift(o)
        if oe is None:
            return NotImplemented
        return SymInt(f(self.e, oe))

    def __add__(self, o):
        return self._bin(o, lambda a, b: a + b)
    __radd__ = __add__

    def __sub__(self, o):
        return self._bin(o, lambda a, b: a - b)

    def __rsub__(self, o):
        return self._bin(o, lambda a, b: b - a)

    def __mul__(self, o):
        if isinstance(o, (list, tuple, str)):
            return int(self) * o
        return self._bin(o, lambda a, b: a * b)
    __rmul__ = __mul__

    def __neg__(self):
        return SymInt(-self.e)

    def __pos__(self):
        return self

    def _cmp(self, o, f):
        oe = lift(o)
        if oe is None:
            return NotImplemented
        return SymBool(f(self.e, oe))

    def __lt__(self, o):
        return self._cmp(o, lambda a, b: a < b)

    def __le__(self, o):
        return self._cmp(o, lambda a, b: a <= b)

    def __gt__(self, o):
        return self._cmp(o, lambda a, b: a > b)

    def __ge__(self, o):
        return self._cmp(o, lambda a, b: a >= b)

    def __eq__(self, o):
        oe = lift(o)
        if oe is None:
            return False
        return SymBool(self.e == oe)

    def __ne__(self, o):
        oe = lift(o)
        if oe is None:
            return True
        return SymBool(self.e != oe)

    def __hash__(self):
        return 0

    def __index__(self):
        return P().concretize(self.e)
    __int__ = __index__

    def __bool__(self):
        return P().decide(self.e != 0)

    def __repr__(self):
        return repr(P().concretize(self.e))
    __str__ = __repr__

    def __format__(self, spec):
        return format(P().concretize(self.e), spec)


class SymReal:
    def __init__(self, e):
        self.e = e

    def _b(self, o, f):
        oe = lift_r(o)
        return NotImplemented if oe is None else SymReal(f(self.e, oe))

    def __add__(self, o):
        return self._b(o, lambda a, b: a + b)
    __radd__ = __add__

    def __sub__(self, o):
        return self._b(o, lambda a, b: a - b)

    def __rsub__(self, o):
        return self._b(o, lambda a, b: b - a)

    def __mul__(self, o):
        return self._b(o, lambda a, b: a * b)
    __rmul__ = __mul__

    def __truediv__(self, o):
        return self._b(o, lambda a, b: a / b)

    def __rtruediv__(self, o):
        return self._b(o, lambda a, b: b / a)

    def __neg__(self):
        return SymReal(-self.e)

    def __pos__(self):
        return self

    def _c(self, o, f):
        oe = lift_r(o)
        return NotImplemented if oe is None else SymBool(f(self.e, oe))

    def __lt__(self, o):
        return self._c(o, lambda a, b: a < b)

    def __le__(self, o):
        return self._c(o, lambda a, b: a <= b)

    def __gt__(self, o):
        return self._c(o, lambda a, b: a > b)

    def __ge__(self, o):
        return self._c(o, lambda a, b: a >= b)

    def __eq__(self, o):
        r = self._c(o, lambda a, b: a == b)
        return False if r is NotImplemented else r

    def __ne__(self, o):
        r = self._c(o, lambda a, b: a != b)
        return True if r is NotImplemented else r

    def __hash__(self):
        return 0

    def __repr__(self):
        return "SymReal(%s)" % self.e


# ---------------------------------------------------------------- model -> py

def model_value(m, v):
    r = m.eval(v, model_completion=True)
    if z3.is_int_value(r):
        return r.as_long()
    if z3.is_rational_value(r):
        f = Fraction(r.numerator_as_long(), r.denominator_as_long())
        return [f.numerator, f.denominator]
    if z3.is_algebraic_value(r):
        f = r.approx(20)
        return float(Fraction(f.numerator_as_long(), f.denominator_as_long()))
    if z3.is_true(r):
        return True
    if z3.is_false(r):
        return False
    return str(r)


# ---------------------------------------------------------------- one path

class Stats:
    def __init__(self):
        self.paths = self.aborted = self.queries = 0
        self.solver_s = 0.0
        self.checks = self.checks_unsat = 0
        self.inconclusive = 0
        self.covers = set()
        self.samples = []
        self.counters = {}

    def count(self, name, n=1):
        self.counters[name] = self.counters.get(name, 0) + n

    def merge(self, o):
        for k, v in o.counters.items():
            self.count(k, v)
        self.paths += o.paths
        self.aborted += o.aborted
        self.queries += o.queries
        self.solver_s += o.solver_s
        self.checks += o.checks
        self.checks_unsat += o.checks_unsat
        self.inconclusive += o.inconclusive
        self.covers |= o.covers
        for s in o.samples:
            if len(self.samples) < 4:
                self.samples.append(s)


class SymEnv:
    """One path of symbolic execution."""
    mode = 'sym'
    symbolic = True

    def __init__(self, prefix, stats, solver_timeout_ms=60000):
        self.prefix = prefix
        self.dec = []
        self.stats = stats
        self.solver = z3.Solver()
        self.solver.set('timeout', solver_timeout_ms)
        self.model = None
        self.pending = []
        self.inputs = {}      # name -> z3 var
        self.choices = {}     # name -> python value (JSON-able index)
        self.cex = []
        self.n = 0
        self.notes = {}
        self.extra = {}       # engines (sym) may stash state here

    # -- solver plumbing
    def _check(self, *extra):
        t = time.time()
        r = self.solver.check(*extra)
        self.stats.queries += 1
        self.stats.solver_s += time.time() - t
        if r == z3.unknown:
            self.stats.inconclusive += 1
            raise Inconclusive(self.solver.reason_unknown())
        return r

    def _model(self):
        if self.model is None:
            if self._check() != z3.sat:
                raise Abort()
            self.model = self.solver.model()
        return self.model

    def add(self, cond):
        self.solver.add(cond)
        if self.model is not None and not z3.is_true(
                self.model.eval(cond, model_completion=True)):
            self.model = None

    def decide(self, cond):
        cond = z3.simplify(cond)
        if z3.is_true(cond):
            return True
        if z3.is_false(cond):
            return False
        k = len(self.dec)
        if k < len(self.prefix):
            d = self.prefix[k]
            self.dec.append(d)
            self.solver.add(cond if d else z3.Not(cond))
            self.model = None
            return d
        m = self._model()
        d = z3.is_true(m.eval(cond, model_completion=True))
        other = z3.Not(cond) if d else cond
        if self._check(other) == z3.sat:
            self.pending.append(self.dec + [not d])
        self.dec.append(d)
        self.solver.add(cond if d else z3.Not(cond))
        # cached model still satisfies the branch taken
        return d

    def concretize(self, e):
        e = z3.simplify(e)
        if z3.is_int_value(e):
            return e.as_long()
        while True:
            v = self._model().eval(e, model_completion=True).as_long()
            if self.decide(e == v):
                return v

    # -- inputs
    def _fresh(self, name, sort):
        if name in self.inputs:
            raise RuntimeError("duplicate input " + name)
        v = z3.Int(name) if sort == 'int' else (
            z3.Real(name) if sort == 'real' else z3.Bool(name))
        self.inputs[name] = v
        return v

    def aux(self, prefix='t', sort='int'):
        self.n += 1
        nm = "%s!%d" % (prefix, self.n)
        return z3.Int(nm) if sort == 'int' else z3.Real(nm)

    def int(self, name, lo=None, hi=None):
        v = self._fresh(name, 'int')
        if lo is not None:
            self.add(v >= lo)
        if hi is not None:
            self.add(v <= hi)
        return SymInt(v)

    def real(self, name):
        return SymReal(self._fresh(name, 'real'))

    def bool(self, name):
        return SymBool(self._fresh(name, 'bool'))

    def choice(self, name, options):
        """independent finite choice: forked without solver calls"""
        options = list(options)
        if not options:
            raise Abort()
        k = len(self.dec)
        if k < len(self.prefix):
            i = self.prefix[k]
        else:
            i = 0
            for j in range(len(options) - 1, 0, -1):
                self.pending.append(self.dec + [j])
        self.dec.append(i)
        self.choices[name] = i
        return options[i]

    def assume(self, cond):
        if isinstance(cond, bool):
            if not cond:
                raise Abort()
            return
        self.add(lift_b(cond))
        self._model()

    def note(self, key, value):
        self.notes[key] = value

    def cover(self, tag):
        self.stats.covers.add(tag)

    # -- assertions
    def snapshot(self, model):
        vals = {n: model_value(model, v) for n, v in self.inputs.items()}
        vals.update({'@' + n: i for n, i in self.choices.items()})
        return vals

    def check(self, cond, key, info=None):
        """Assertion: must hold for every value of the remaining symbols."""
        self.stats.checks += 1
        if type(cond).__name__ in ('bool_', 'bool'):
            cond = bool(cond)
        if isinstance(cond, bool):
            if cond:
                self.stats.checks_unsat += 1
                return
            self.cex.append(dict(key=key, info=info,
                                 inputs=self.snapshot(self._model())))
            raise Abort()
        e = z3.simplify(lift_b(cond))
        if z3.is_true(e):
            self.stats.checks_unsat += 1
            return
        r = self._check(z3.Not(e))
        if r == z3.sat:
            self.cex.append(dict(key=key, info=info,
                                 inputs=self.snapshot(self.solver.model())))
            self.add(e)
            self._model()       # Abort if nothing satisfies the assertion
        else:
            self.stats.checks_unsat += 1

    def fail(self, key, info=None):
        self.check(False, key, info)

    def reach(self):
        """vacuity twin: the current point is feasible"""
        self._model()


class ConcEnv:
    """Concrete replay of one recorded counterexample."""
    mode = 'conc'
    symbolic = False

    def __init__(self, inputs):
        self.d = inputs
        self.failures = []
        self.notes = {}
        self.extra = {}
        self.covers = set()

    def _get(self, name, default):
        v = self.d.get(name, default)
        return v

    def int(self, name, lo=None, hi=None):
        v = self._get(name, lo if lo is not None else 0)
        return int(v)

    def real(self, name):
        v = self._get(name, 0)
        if isinstance(v, list):
            return Fraction(v[0], v[1])
        return Fraction(v) if isinstance(v, int) else v

    def bool(self, name):
        return bool(self._get(name, False))

    def choice(self, name, options):
        options = list(options)
        if not options:
            raise Abort()
        i = self.d.get('@' + name, 0)
        if i >= len(options):
            raise Abort()
        return options[i]

    def assume(self, cond):
        if not cond:
            raise Abort()

    def note(self, key, value):
        self.notes[key] = value

    def cover(self, tag):
        self.covers.add(tag)

    def check(self, cond, key, info=None):
        if not cond:
            self.failures.append(dict(key=key, info=info))
            raise Abort()

    def fail(self, key, info=None):
        self.check(False, key, info)

    def reach(self):
        pass


# ---------------------------------------------------------------- explorer

class PathTimeout(BaseException):
    """a single path exceeded its wall-clock budget (inconclusive)"""


def _alarm(signum, frame):
    raise PathTimeout()


PATH_BUDGET_S = 300


def run_path(fn, params, prefix, stats, solver_timeout_ms):
    """Run one path; returns (pending prefixes, counterexamples)."""
    import signal
    env = SymEnv(prefix, stats, solver_timeout_ms)
    _Ctx.cur = env
    try:
        signal.signal(signal.SIGALRM, _alarm)
        signal.alarm(PATH_BUDGET_S)
    except (ValueError, AttributeError):
        pass
    try:
        try:
            fn(env, **params)
            stats.paths += 1
            if len(stats.samples) < 4:
                stats.samples.append(dict(
                    choices=dict(env.choices), notes=dict(env.notes),
                    decisions=len(env.dec)))
        except Abort:
            stats.aborted += 1
        except Inconclusive:
            pass
        except PathTimeout:
            stats.inconclusive += 1
            stats.count("path_timeouts")
        except Exception as e:      # escaped from the code under test
            try:
                m = env._model()
                env.cex.append(dict(
                    key="exception:" + type(e).__name__,
                    info=traceback.format_exc()[-1500:],
                    inputs=env.snapshot(m)))
            except (Abort, Inconclusive):
                stats.aborted += 1
    finally:
        try:
            signal.alarm(0)
        except (ValueError, AttributeError):
            pass
        _Ctx.cur = None
    return env.pending, env.cex


def explore(fn, params, prefixes, budget_s, solver_timeout_ms=60000,
            max_cex=60, seed=0):
    """DFS from the given prefixes for at most budget_s seconds.
    Returns (stats, cex list, remaining prefixes)."""
    import random
    rnd = random.Random(seed)
    stats = Stats()
    stack = list(prefixes)
    cex = []
    t0 = time.time()
    while stack and time.time() - t0 < budget_s and len(cex) < max_cex:
        prefix = stack.pop()
        pending, found = run_path(fn, params, prefix, stats,
                                  solver_timeout_ms)
        if seed and len(pending) > 1:
            rnd.shuffle(pending)
        stack.extend(pending)
        for f in found:         # at most 3 candidates per failure class
            if sum(1 for c in cex if c["key"] == f["key"]) < 3:
                cex.append(f)
    return stats, cex, stack


def replay(fn, params, inputs):
    """Concrete replay.  Returns (list of failures, exception text or None)."""
    env = ConcEnv(inputs)
    _Ctx.cur = env
    try:
        fn(env, **params)
    except Abort:
        pass
    except Exception as e:
        return env.failures + [dict(
            key="exception:" + type(e).__name__,
            info=traceback.format_exc()[-1500:])], env
    finally:
        _Ctx.cur = None
    return env.failures, env
