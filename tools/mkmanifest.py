#!/usr/bin/env python3
"""Regenerate MANIFEST.json from the property modules present in vf/props."""
import json, os, sys, subprocess
V = '/verif'
props = [json.loads(l) for l in open(V + '/properties.jsonl')]
META = json.load(open(V + '/tools/manifest_meta.json'))
hook_commit = subprocess.check_output(['git', '-C', '/repo', 'log', '--format=%h', '--grep=^verif hook']).decode().split()
checks, na = [], []
for p in props:
    pid = p['id']
    m = META.get(pid, {})
    if os.path.exists('%s/vf/props/%s.py' % (V, pid.lower())) and not m.get('na'):
        checks.append(dict(
            property_id=pid,
            quick_cmd="./check %s --tier quick" % pid,
            thorough_cmd="./check %s --tier thorough" % pid,
            evidence_file="/verif/evidence/%s.json" % pid,
            replay_cmd_template="./check %s --replay {path}" % pid,
            engine=m.get('engine', 'dse'),
            level_claimed=dict(category=m.get('category', "model_checking"), text=m['level_text'], design_ref=m.get('design_ref', 'DESIGN.md section 4, ' + pid)),
            level_note=m['level_note'],
            technique=m['technique']))
    else:
        na.append(dict(property_id=pid, reason=m.get('na') or "check not built yet in this round (planned: DESIGN.md section 4)"))
man = dict(
    version=1,
    setup_cmd="sh /verif/setup.sh",
    hooks=dict(guard="DISCOPY_VERIF", enable="environment variable DISCOPY_VERIF=1 (exported by /verif/check); pure Python, nothing to rebuild; the harness installs discopy.monoidal._verif_rescan",
               baseline_off_cmd="cd /repo && env -u DISCOPY_VERIF /venv/bin/python -m pytest -ra -q -p no:cacheprovider --timeout=900 --continue-on-collection-errors",
               source_commits=hook_commit, add_only=True),
    engines=[
        dict(name="dse", path="vf/engine.py", serves_properties=[c['property_id'] for c in checks], kind_free_text="dynamic symbolic execution of the real Python code over z3 (proxy ints/bools/reals, decision-prefix replay), concrete replay of every model before reporting"),
        dict(name="symty", path="vf/symty.py", serves_properties=["C01", "C02", "C05", "C06"], kind_free_text="bounded array model of monoidal.Ty with symbolic width (Mode B)"),
        dict(name="sym", path="vf/sym.py", serves_properties=["C07", "C08", "C09", "C10", "C11", "C12", "C13", "C14", "C15", "C16", "C17"], kind_free_text="numeric code executed on z3-term-valued complex numbers / sympy arrays, identities decided in QF_NRA"),
    ],
    checks=checks, not_applicable=na,
    notes="Exit codes of ./check: 0 held, 1 reproduced violation (VIOLATION line), 2 inconclusive, 3 harness error. known_findings.json lists fixed/known findings.")
json.dump(man, open(V + '/MANIFEST.json', 'w'), indent=1)
print("checks:", [c['property_id'] for c in checks], "na:", len(na))
