#!/bin/sh
# verify_seed.sh <PID> <k>: confirm a sub-agent's seeded change in its scratch worktree, then store it under /verif/seeded
PID=$1; K=$2; ROUND=${3:-1}; WT=/tmp/wt/$PID; if [ "$ROUND" = 3 ]; then SRC=/tmp/mut3/$PID/$K; DST=/verif/seeded/$PID-$((K+4)); elif [ "$ROUND" = 2 ]; then SRC=/tmp/mut2/$PID/$K; DST=/verif/seeded/$PID-$((K+2)); else SRC=/tmp/mut/$PID/$K; DST=/verif/seeded/$PID-$K; fi
set -e
git -C $WT checkout -q -- . ; git -C $WT status --short | grep -q . && { echo "worktree dirty"; exit 1; }
DES="--deselect test/test_drawing.py::test_draw_eggs --deselect test/test_drawing.py::test_pregroup_draw --deselect test/test_tensor.py::test_Tensor_scalar --deselect test/test_zx.py::test_backnforth_pyzx --deselect test/test_zx.py::test_circui2zx --deselect test/test_zx.py::test_from_pyzx_errors --deselect test/test_zx.py::test_grad_to_pyzx --deselect test/test_zx.py::test_to_pyzx --deselect test/test_zx.py::test_to_pyzx_errors --deselect test/test_zx.py::test_to_pyzx_scalar"
cd $WT
if PYTHONPATH=$WT /venv/bin/python $SRC/demo.py >/dev/null 2>&1; then A=pass; else A=fail; fi
git apply $SRC/patch.diff
T=$(PYTHONPATH=$WT /venv/bin/python -m pytest -q -p no:cacheprovider $DES 2>&1 | tail -1)
if PYTHONPATH=$WT /venv/bin/python $SRC/demo.py >/dev/null 2>&1; then B=pass; else B=fail; fi
git checkout -q -- .
echo "$PID-$K clean-demo=$A mutated-demo=$B tests: $T"
case "$T" in *failed*) echo "REJECT (tests fail)"; exit 1;; esac
[ "$A" = pass ] && [ "$B" = fail ] || { echo "REJECT"; exit 1; }
mkdir -p $DST; cp $SRC/patch.diff $SRC/demo.py $DST/
python3 - "$SRC/meta.json" "$DST/meta.json" "$T" <<'PY'
import json,sys
m=json.load(open(sys.argv[1]))
m["confirmed"]={"by":"tools/verify_seed.sh in scratch worktree","tests_with_change":sys.argv[3],"demo_clean":"exit 0","demo_with_change":"exit != 0"}
json.dump(m,open(sys.argv[2],"w"),indent=1)
PY
echo "STORED $DST"
