import json,sys
p='/verif/tools/manifest_meta.json'
d=json.load(open(p))
d.update(json.loads(sys.stdin.read()))
json.dump(d,open(p,'w'),indent=1)
