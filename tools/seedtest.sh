#!/bin/sh
# seedtest.sh <seed-dir-name> [check args]: apply seeded patch to /repo, run the property's check, revert
S=$1; shift; PID=${S%%-*}
[ -n "$(git -C /repo status --short)" ] && { echo "/repo dirty"; exit 9; }
git -C /repo apply /verif/seeded/$S/patch.diff || exit 9
cd /verif && ./check ${CHK:-$PID} "$@" 2>&1 | grep -E "VIOLATION|KNOWN|RESULT|INCONCLUSIVE|HARNESS|UNREPRO" | cut -c1-300
git -C /repo checkout -- .
