#!/bin/sh
# Offline, idempotent: overlay venv on /venv with z3 5.1 / cvc5 / crosshair.
set -e
V=/verif/.venv
if [ ! -x "$V/bin/python" ] || ! "$V/bin/python" -c "import z3, cvc5, jsonschema, numpy, sympy" 2>/dev/null; then
  rm -rf "$V"
  /venv/bin/python -m venv "$V"
  SP=$("$V/bin/python" -c "import sysconfig; print(sysconfig.get_paths()['purelib'])")
  printf "import site; site.addsitedir('/venv/lib/python3.12/site-packages')\n" > "$SP/_overlay.pth"
  PIP_NO_INDEX=1 "$V/bin/python" -m pip install -q --no-index --find-links /opt/veriftools/wheels z3-solver cvc5 jsonschema crosshair-tool >/dev/null 2>&1 || \
  PIP_NO_INDEX=1 "$V/bin/python" -m pip install --no-index --find-links /opt/veriftools/wheels z3-solver cvc5 jsonschema crosshair-tool
fi
"$V/bin/python" -c "import z3, discopy, numpy, sympy; assert discopy.__file__.startswith('/repo/'), discopy.__file__"
